"""Deterministic input enumerators shared by the bounded modules (C01, C04 and others).

Nothing here imports fastparquet: the module only builds pandas objects and plain option values.

Public surface
--------------
DTYPES, ROWS, NULLS, MIXED, INDEX_KINDS   the axes of C01's quantifier
series(dtype, n, nulls, name='x')        one column, deterministic values (boundary values first)
frame_from_features(features)            rebuild the frame of a case from its features {dtype, rows, nulls, index}
                                         (worker / replay side; dtype may be a MIXED name or 'sampled')
frame_specs(tier) / frames(tier, seed)   feature dicts / (features, DataFrame): single-column frames over
                                         DTYPES x ROWS x NULLS, multi-column mixed frames, index frames,
                                         and (thorough) seed-driven sampled frames
derived_features(features)               kinds / optional / index_stored, deterministic from the other features
covering_array(axes, strength)           greedy t-wise covering array (list of dicts)
option_features(tier)                    the option tuples as feature dicts (pairwise quick, 3-wise thorough)
option_tuples(tier, seed)                yields (features, kwargs, globals); kwargs values that need the frame
                                         (per-column dicts/lists, row_group_offsets, MAX_PAGE_SIZE for a requested
                                         page count) are PerFrame markers ...
bind_options(opt_features, df)           ... resolved for a concrete frame -> (kwargs, globals)
writer_globals(fp, MAX_PAGE_SIZE=..., DATAPAGE_VERSION=...)   context manager: set / restore the two
                                         module globals of fastparquet.writer
data_pages(pf), chunk_pages(pf)          the real number of data pages (max / per chunk), from the footer
page_layout(df, kwargs, globals), layout_feature(...)   model of the page layout from the documented paging
                                         rule, and the layout facts used in finding signatures
poison_heap(nrows)                       make reads of never-written np.empty memory deterministic
crashproof_map(fn, items, init=...)      forked worker pool that survives (and reports) a dying worker

Enumerations never depend on the seed; the seed only drives the extra sampled frames of the thorough tier
(features dtype='sampled', sample=k, seed=seed).
"""
import contextlib
import itertools
import math
import random

import numpy as np
import pandas as pd

ROWS = [0, 1, 7, 8, 9, 63, 64, 65, 8191, 8192, 8193]
SMALL_ROWS = [r for r in ROWS if r < 1000]
BIG_ROWS = [r for r in ROWS if r >= 1000]
NULLS = ["none", "some", "all", "first", "last"]

NUMPY_INTS = ["int8", "int16", "int32", "int64", "uint8", "uint16", "uint32", "uint64"]
NULLABLE_INTS = ["Int8", "Int16", "Int32", "Int64", "UInt8", "UInt16", "UInt32", "UInt64"]
TEXT = ["str", "object_str", "string"]
DATETIMES = ["datetime64[s]", "datetime64[ms]", "datetime64[us]", "datetime64[ns]",
             "datetime64[s, America/New_York]", "datetime64[ms, Asia/Kolkata]",
             "datetime64[us, UTC]", "datetime64[ns, Europe/Berlin]"]
TIMEDELTAS = ["timedelta64[ns]", "timedelta64[us]", "timedelta64[ms]", "timedelta64[s]"]
# cat[<label type>{,unsorted}{,unused}{,ordered}{,wide}]   wide = 300 categories (int16 codes)
CATEGORICALS = ["cat[str]", "cat[str,unsorted,unused]", "cat[str,ordered]", "cat[int]",
                "cat[int,unsorted,unused,ordered]", "cat[float]", "cat[float,unsorted]", "cat[int,wide]",
                "cat[str,unsorted]"]
DTYPES = (["bool"] + NUMPY_INTS + ["float32", "float64"] + TEXT + ["bytes", "json"] + DATETIMES + TIMEDELTAS
          + CATEGORICALS + NULLABLE_INTS + ["boolean"])
# categoricals whose CATEGORIES are booleans (not part of DTYPES: the modules that want them ask for them)
BOOL_CATEGORICALS = ["cat[bool]", "cat[bool,unsorted]", "cat[bool,ordered]", "cat[bool,one]"]
# dtypes that also get the large row counts in the quick tier
BIG_DTYPES = ["bool", "int64", "float64", "str", "datetime64[ns]", "cat[str,unsorted,unused]", "Int64", "boolean"]


def allows_nulls(dtype):
    return not (dtype == "bool" or dtype in NUMPY_INTS)


def null_patterns(dtype, n):
    """Distinct null patterns that exist for this dtype and row count."""
    if not allows_nulls(dtype) or n == 0:
        return ["none"]
    if n == 1:
        return ["none", "all"]
    return list(NULLS)


def null_mask(n, nulls):
    m = np.zeros(n, dtype=bool)
    if n == 0 or nulls == "none":
        return m
    if nulls == "all":
        m[:] = True
    elif nulls == "first":
        m[0] = True
    elif nulls == "last":
        m[-1] = True
    elif nulls == "some":
        m[1::3] = True
        if n > 20:          # a longer run of nulls crossing the 8 / 64 boundaries
            m[8:19] = True
    else:
        raise ValueError(nulls)
    return m


# ---- deterministic values ------------------------------------------------------------------------
def _ints(n, lo, hi):
    """n python-exact integers in [lo, hi]: boundary values first, then a scrambled progression."""
    head = [1, 0, hi, lo, hi - 1, lo + 1, 2, 100, lo // 2, hi // 2]
    head = [min(max(v, lo), hi) for v in head]
    span = hi - lo + 1
    out = head[:n]
    k = len(out)
    while k < n:
        out.append(lo + (k * 2654435761 * 40503 + 12345) % span)
        k += 1
    return out


_TEXT_POOL = ["a", "", "bb", "ü", "Zebra", "é€", "\U0001d11e", "￮", "z" * 17, "naïve café", " lead", "trail ",
              "0", "None", "nan", "中文字", "a\x00b", "tab\there"]
_JSON_POOL = [{"a": 1}, [1, 2, 3], {"k": [1, {"z": None}], "s": "ü"}, [], {}, {"n": 1.5, "t": True}, [[1], [2, 3]],
              {"a": "x" * 20}]


def _text(n):
    return [_TEXT_POOL[i] if i < len(_TEXT_POOL) else f"s{(i * 7919) % 1009}-{'x' * (i % 11)}" for i in range(n)]


def _parse_cat(dtype):
    inner = dtype[4:-1].split(",")
    return inner[0], set(inner[1:])


def _datetime_values(unit, n):
    # int64 counts in `unit`; spans before/after the epoch, stays inside the ns range of int64
    per_s = {"s": 1, "ms": 10 ** 3, "us": 10 ** 6, "ns": 10 ** 9}[unit]
    lim = 9_000_000_000          # seconds (~ year 2255 / 1684): inside datetime64[ns]
    secs = _ints(n, -lim, lim)
    sub = _ints(n, 0, per_s - 1) if per_s > 1 else [0] * n
    return np.array([s * per_s + f for s, f in zip(secs, sub)], dtype="int64")


def values(dtype, n):
    """Series of n non-null deterministic values of the named dtype (name 'x')."""
    if dtype == "bool":
        v = np.array([(i * 5 + (i >> 3)) % 3 == 0 for i in range(n)], dtype=bool)
        return pd.Series(v, dtype=bool)
    if dtype in NUMPY_INTS:
        info = np.iinfo(dtype)
        return pd.Series(np.array(_ints(n, int(info.min), int(info.max)), dtype=dtype))
    if dtype in NULLABLE_INTS:
        info = np.iinfo(dtype.lower())
        return pd.Series(np.array(_ints(n, int(info.min), int(info.max)), dtype=dtype.lower())).astype(dtype)
    if dtype == "boolean":
        return values("bool", n).astype("boolean")
    if dtype in ("float32", "float64"):
        fi = np.finfo(dtype)
        head = [0.0, -0.0, 1.5, np.inf, -np.inf, float(fi.max), float(fi.min), float(fi.tiny), -1.25, 1e-3]
        body = [((i * 7919) % 2003 - 1001) / 8.0 for i in range(n)]
        v = (head + body[len(head):])[:n] if n > len(head) else head[:n]
        return pd.Series(np.array(v, dtype=dtype))
    if dtype == "str":
        return pd.Series(_text(n), dtype="str")
    if dtype == "object_str":
        return pd.Series(_text(n), dtype=object)
    if dtype == "string":
        return pd.Series(_text(n), dtype="string")
    if dtype == "bytes":
        pool = [b"a", b"", b"\xff\x00", b"\x00", b"abc" * 5, "ü".encode(), b"\x80\x7f"]
        return pd.Series([pool[i] if i < len(pool) else bytes([(i * 37) % 256, i % 256]) * (i % 5 + 1) for i in range(n)],
                         dtype=object)
    if dtype == "json":
        return pd.Series([_JSON_POOL[i % len(_JSON_POOL)] if i < 2 * len(_JSON_POOL) else {"i": i, "l": [i % 7] * (i % 4)}
                          for i in range(n)], dtype=object)
    if dtype.startswith("datetime64["):
        inner = dtype[11:-1]
        unit, _, tz = inner.partition(", ")
        s = pd.Series(_datetime_values(unit, n).view(f"datetime64[{unit}]"))
        if tz:
            s = s.dt.tz_localize("UTC").dt.tz_convert(tz)
        return s
    if dtype.startswith("timedelta64["):
        unit = dtype[12:-1]
        if unit == "ns":      # representable in microseconds: multiples of 1000 ns
            v = np.array(_ints(n, -10 ** 15, 10 ** 15), dtype="int64") * 1000
        else:
            lim = {"us": 10 ** 17, "ms": 10 ** 14, "s": 10 ** 11}[unit]
            v = np.array(_ints(n, -lim, lim), dtype="int64")
        return pd.Series(v.view(f"timedelta64[{unit}]"))
    if dtype.startswith("cat["):
        label, flags = _parse_cat(dtype)
        ncat = 300 if "wide" in flags else 5
        if label == "str":
            labels = ["apple", "Banana", "cherry", "ünï", "date"] if ncat == 5 else [f"c{i:03d}" for i in range(ncat)]
        elif label == "int":
            labels = [10, 20, 30, 40, -5] if ncat == 5 else list(range(1000, 1000 + ncat))
            labels = sorted(labels)
        elif label == "bool":          # categories ARE booleans: a BOOLEAN dictionary page with <= 2 entries
            labels = [True] if "one" in flags else [False, True]       # (flag 'unused' is not available here)
        else:
            labels = [-1.5, 0.0, 0.25, 2.0, 1e10]
        labels = sorted(labels)
        if "unsorted" in flags:      # category order differs from value order
            labels = labels[2:] + labels[:2][::-1]
        used = labels[:-2] if "unused" in flags else labels      # the last two categories never occur
        codes = np.array([(i * 7 + (i >> 2)) % len(used) for i in range(n)], dtype="int64")
        cat = pd.Categorical.from_codes(codes, categories=pd.Index(labels), ordered="ordered" in flags)
        return pd.Series(cat)
    raise ValueError(dtype)


def series(dtype, n, nulls="none", name="x"):
    s = values(dtype, n)
    m = null_mask(n, nulls)
    if m.any():
        if not allows_nulls(dtype):
            raise ValueError(f"{dtype} cannot hold nulls")
        if dtype in ("object_str", "bytes", "json"):
            s = s.copy()
            s[m] = None
        else:
            s = s.mask(m)
    s.name = name
    return s


MIXED = {
    # name -> list of (column name, dtype, null pattern when nulls requested)
    "mixed_num": [("a", "int64"), ("B b", "float64"), ("c", "int32"), ("d", "bool"), ("e", "float32")],
    "mixed_all": [("i", "int64"), ("f", "float64"), ("s", "str"), ("c", "cat[str,unsorted,unused]"),
                  ("t", "datetime64[ns]"), ("N", "Int64"), ("b", "boolean"), ("y", "bytes")],
    "mixed_obj": [("s", "object_str"), ("ü", "bytes"), ("j", "json"), ("c", "cat[int]"), ("u", "uint8")],
    "mixed_time": [("t_s", "datetime64[s]"), ("t_tz", "datetime64[ns, Europe/Berlin]"), ("d", "timedelta64[us]"),
                   ("k", "Int16")],
}
INDEX_KINDS = ["int", "named", "str", "datetime", "multi", "range_off", "range_step", "range_neg", "range_named"]


def make_index(kind, n):
    if kind == "range":
        return pd.RangeIndex(n)
    if kind == "range_off":
        return pd.RangeIndex(5, 5 + n)
    if kind == "range_step":
        return pd.RangeIndex(0, 2 * n, 2)
    if kind == "range_neg":
        return pd.RangeIndex(n - 1, -1, -1)
    if kind == "range_named":
        return pd.RangeIndex(n, name="rid")
    if kind == "int":
        return pd.Index([(i * 37) % 101 * 10 - 7 * i + 3 for i in range(n)], dtype="int64")
    if kind == "named":
        return pd.Index([3 * i + 1 for i in range(n)], dtype="int64", name="idx")
    if kind == "str":
        return pd.Index([f"r{i:04d}" for i in range(n)], dtype=object, name="key")
    if kind == "datetime":
        return pd.DatetimeIndex(np.array([10 ** 9 * (1_500_000_000 + 3600 * i) for i in range(n)], dtype="int64")
                                .view("datetime64[ns]"), name="when")
    if kind == "multi":
        return pd.MultiIndex.from_arrays([[i // 3 for i in range(n)], [f"k{i % 3}" for i in range(n)]],
                                         names=["lvl0", "lvl1"])
    raise ValueError(kind)


def column_kind(dtype):
    """Coarse kind of a column dtype name of DTYPES (used in derived features / finding signatures)."""
    if dtype == "bool":
        return "bool"
    if dtype in NUMPY_INTS:
        return "uint" if dtype.startswith("u") else "int"
    if dtype in ("float32", "float64"):
        return "float"
    if dtype in TEXT:
        return "text"
    if dtype in ("bytes", "json"):
        return dtype
    if dtype.startswith("datetime64"):
        return "datetime"
    if dtype.startswith("timedelta64"):
        return "timedelta"
    if dtype.startswith("cat["):
        return "cat16" if "wide" in dtype else "cat"
    if dtype in NULLABLE_INTS or dtype == "boolean":
        return "masked"
    raise ValueError(dtype)


def derived_features(f):
    """Features that follow from (dtype, index, write_index, has_nulls): 
    kinds        comma-joined column kinds in column order (one entry for single-column frames)
    optional     'yes' / 'no': are the data columns written OPTIONAL (with definition levels)?
                 'objects' = only the object-dtype columns of a mixed frame (has_nulls='infer')
    index_stored what the writer stores for the row index (see index_stored)"""
    dtype = f["dtype"]
    if dtype in MIXED:
        kinds = [column_kind(dt) for _, dt in MIXED[dtype]]
        dts = [dt for _, dt in MIXED[dtype]]
    elif dtype == "sampled":
        dts = [dt for _, dt, _ in sampled_spec(f["seed"], f["sample"])[1]]
        kinds = [column_kind(dt) for dt in dts]
    else:
        kinds, dts = [column_kind(dtype)], [dtype]
    hn = f.get("has_nulls", True)
    if hn is True or hn == "list":
        opt = "yes"
    elif hn is False:
        opt = "no"
    else:   # infer: object dtype columns only
        obj = [dt in ("object_str", "bytes", "json") for dt in dts]
        opt = "yes" if obj and all(obj) else "no" if not any(obj) else "objects"
    return {"kinds": ",".join(kinds), "optional": opt, "index_stored": index_stored(f)}


def index_stored(f):
    """What the writer stores for the row index of a case: 'no' (nothing, or only the range description),
    else the kind of index column(s): 'int64' | 'object' | 'datetime' | 'multi'."""
    kind, wi = f.get("index", "range"), f.get("write_index")
    if not (wi is True or (wi is None and not kind.startswith("range"))):
        return "no"
    return {"multi": "multi", "datetime": "datetime", "str": "object"}.get(kind, "int64")


def poison_heap(nrows):
    """Fill and free heap blocks of the sizes a reader is likely to allocate next, so that a read of
    never-written (np.empty) memory returns 0x5A.. garbage deterministically instead of stale bytes
    that may happen to be the expected data.  Has no effect on code that initialises what it returns."""
    blocks = []
    for width in (1, 2, 4, 8, 12, 16):
        nbytes = max(nrows, 1) * width
        for _ in range(12):
            blocks.append(np.full(nbytes, 0x5A, dtype="u1"))
    del blocks


def frame_from_features(f):
    """Rebuild the input frame of a case from its features (dtype, rows, nulls, index)."""
    n, nulls, dtype = f["rows"], f.get("nulls", "none"), f["dtype"]
    if dtype == "sampled":
        n, cols = sampled_spec(f["seed"], f["sample"])
        df = pd.DataFrame({name: series(dt, n, pat, name=name) for name, dt, pat in cols})
    elif dtype in MIXED:
        cols = {}
        for k, (name, dt) in enumerate(MIXED[dtype]):
            pats = null_patterns(dt, n)
            pat = nulls if nulls in pats else "none"
            if nulls == "some" and "some" in pats and k % 2:      # vary the pattern between columns
                pat = "last"
            cols[name] = series(dt, n, pat, name=name)
        df = pd.DataFrame(cols)
    else:
        df = pd.DataFrame({"x": series(dtype, n, nulls)})
    kind = f.get("index", "range")
    if kind != "range":
        df.index = make_index(kind, n)
    return df


def _single_shapes(dtype, rows):
    for n in rows:
        for nulls in null_patterns(dtype, n):
            yield n, nulls


def frame_specs(tier="quick"):
    """All frame feature dicts of the tier (no data built)."""
    out = []
    for dtype in DTYPES:
        rows = ROWS if (tier == "thorough" or dtype in BIG_DTYPES) else SMALL_ROWS
        for n, nulls in _single_shapes(dtype, rows):
            out.append({"dtype": dtype, "rows": n, "nulls": nulls, "index": "range"})
    mixed_rows = [0, 1, 9, 65] if tier == "quick" else SMALL_ROWS + [8193]
    for name in MIXED:
        for n in mixed_rows:
            for nulls in (["none"] if n == 0 else ["none", "all"] if n == 1 else ["none", "some", "all"]):
                out.append({"dtype": name, "rows": n, "nulls": nulls, "index": "range"})
    idx_cols = ["int64", "float64", "str", "cat[str]", "mixed_num", "mixed_all"] if tier == "quick" else \
        ["int64", "float64", "str", "cat[str]", "datetime64[ns]", "Int64"] + list(MIXED)
    for kind in INDEX_KINDS:
        for dtype in idx_cols:
            for n in ([0, 1, 9] if tier == "quick" else [0, 1, 9, 65]):
                out.append({"dtype": dtype, "rows": n, "nulls": "none", "index": kind})
    return out


def frames(tier="quick", seed=0):
    """Yield (features, DataFrame).  features = {dtype, rows, nulls, index}."""
    for f in frame_specs(tier):
        yield dict(f), frame_from_features(f)
    if tier == "thorough":
        for f in sampled_specs(tier, seed):
            yield f, frame_from_features(f)


N_SAMPLED = 60


def sampled_specs(tier="quick", seed=0):
    """Feature dicts of the seed-driven sampled multi-column frames (thorough tier only)."""
    if tier != "thorough":
        return []
    return [{"dtype": "sampled", "rows": sampled_spec(seed, k)[0], "nulls": "mixed", "index": "range",
             "sample": k, "seed": seed} for k in range(N_SAMPLED)]

# dtypes the sampled multi-column frames draw from: those whose round trip has no per-column known finding
SAMPLED_DTYPES = (["bool"] + NUMPY_INTS + ["float32", "float64"] + TEXT + ["bytes", "json", "datetime64[ns]",
                  "datetime64[ns, Europe/Berlin]", "timedelta64[ns]", "timedelta64[us]"]
                  + [c for c in CATEGORICALS if "wide" not in c])


def sampled_spec(seed, k):
    """(rows, [(column name, dtype, null pattern)]) of sampled frame k for a seed."""
    rng = random.Random(f"{seed}-{k}")
    n = rng.choice(SMALL_ROWS[1:])
    cols = []
    for c in range(rng.randint(1, 4)):
        dt = rng.choice(SAMPLED_DTYPES)
        cols.append((f"c{c}", dt, rng.choice(null_patterns(dt, n))))
    return n, cols


# ---- covering arrays ---------------------------------------------------------------------------------
def covering_array(axes, strength=2):
    """Greedy t-wise covering array.  axes: dict name -> list of values (order is significant and the
    result is deterministic).  Returns a list of dicts such that every combination of values of every
    `strength` axes occurs in at least one row."""
    names = list(axes)
    strength = min(strength, len(names))
    idx = {a: list(range(len(axes[a]))) for a in names}
    uncovered = set()
    for combo in itertools.combinations(range(len(names)), strength):
        for vals in itertools.product(*[idx[names[c]] for c in combo]):
            uncovered.add((combo, vals))
    rows = []
    order = sorted(uncovered)
    pos = 0
    while uncovered:
        while order[pos] not in uncovered:
            pos += 1
        combo, vals = order[pos]
        row = {c: v for c, v in zip(combo, vals)}          # seed the row with the first uncovered tuple
        for a in range(len(names)):
            if a in row:
                continue
            best, best_gain = 0, -1
            for v in idx[names[a]]:
                row[a] = v
                fixed = [c for c in row]
                gain = 0
                for sub in itertools.combinations([c for c in fixed if c != a], strength - 1):
                    cc = tuple(sorted(sub + (a,)))
                    if (cc, tuple(row[c] for c in cc)) in uncovered:
                        gain += 1
                if gain > best_gain:
                    best, best_gain = v, gain
            row[a] = best
        for cc in itertools.combinations(range(len(names)), strength):
            uncovered.discard((cc, tuple(row[c] for c in cc)))
        rows.append({names[a]: axes[names[a]][row[a]] for a in range(len(names))})
    return rows


OPTION_AXES = {
    "codec": ["none", "SNAPPY", "GZIP", "ZSTD", "LZ4", "BROTLI", "dict"],
    "rgo": ["none", "zero", "int", "list"],
    "has_nulls": [True, False, "infer", "list"],
    "pages": [1, 2, 3],
    "page_version": [1, 2],
    "stats": [True, False, "auto", "list"],
    "times": ["int64", "int96"],
    "object_encoding": ["infer", "explicit"],
    "file_scheme": ["simple", "hive"],
    "write_index": [None, True, False],
}
DEFAULT_OPTIONS = {"codec": "none", "rgo": "none", "has_nulls": True, "pages": 1, "page_version": 1, "stats": "auto",
                   "times": "int64", "object_encoding": "infer", "file_scheme": "simple", "write_index": None}


class PerFrame:
    """Marker for an option value that can only be produced once the frame is known."""

    def __init__(self, what):
        self.what = what

    def __repr__(self):
        return f"PerFrame({self.what!r})"


_array_cache = {}


def option_features(tier="quick"):
    key = 2 if tier == "quick" else 3
    if key not in _array_cache:
        arr = covering_array(OPTION_AXES, key)
        if DEFAULT_OPTIONS not in arr:
            arr.insert(0, dict(DEFAULT_OPTIONS))
        _array_cache[key] = arr
    return [dict(r) for r in _array_cache[key]]


def _template(f):
    kw, gl = {}, {}
    kw["compression"] = None if f["codec"] == "none" else PerFrame("codec-dict") if f["codec"] == "dict" else f["codec"]
    kw["row_group_offsets"] = {"none": None, "zero": 0}.get(f["rgo"], PerFrame("rgo-" + str(f["rgo"])))
    kw["has_nulls"] = PerFrame("has_nulls-list") if f["has_nulls"] == "list" else f["has_nulls"]
    kw["stats"] = PerFrame("stats-list") if f["stats"] == "list" else f["stats"]
    kw["times"] = f["times"]
    kw["object_encoding"] = "infer" if f["object_encoding"] == "infer" else PerFrame("object_encoding-dict")
    kw["file_scheme"] = f["file_scheme"]
    kw["write_index"] = f["write_index"]
    gl["DATAPAGE_VERSION"] = f["page_version"]
    gl["MAX_PAGE_SIZE"] = None if f["pages"] == 1 else PerFrame(f"pages-{f['pages']}")
    return kw, gl


def option_tuples(tier="quick", seed=0):
    """Yield (features, kwargs, globals).  kwargs/globals may hold PerFrame markers: call
    bind_options(features, df) to obtain concrete values for a frame.  globals maps the names of the
    fastparquet.writer module globals to values (None = leave the library default)."""
    for f in option_features(tier):
        kw, gl = _template(f)
        yield f, kw, gl


def _written_columns(df, write_index):
    """Names of the columns the writer will see (index columns first, as reset_index produces them)."""
    cols = [str(c) for c in df.columns]
    idx = []
    if write_index or (write_index is None and not isinstance(df.index, pd.RangeIndex)):
        if isinstance(df.index, pd.MultiIndex):
            idx = [nm if nm is not None else f"level_{i}" for i, nm in enumerate(df.index.names)]
        else:
            idx = [df.index.name if df.index.name is not None else "index"]
    return idx, cols


def _object_encoding_of(s):
    if s.dtype != object:
        return None
    for v in s:
        if v is None or (isinstance(v, float) and v != v):
            continue
        if isinstance(v, str):
            return "utf8"
        if isinstance(v, bytes):
            return "bytes"
        if isinstance(v, (dict, list)):
            return "json"
        return None
    return "utf8"


def bytes_per_element(s):
    """Estimate used to aim at a page count (documented sizes: 1 bit for bool, physical width otherwise,
    mean text length + 4 for byte arrays).  Only used to choose MAX_PAGE_SIZE; the real page count is
    measured afterwards with data_pages()."""
    dt = s.dtype
    if isinstance(dt, pd.CategoricalDtype):
        return s.cat.codes.dtype.itemsize
    name = str(dt)
    if name in ("bool", "boolean"):
        return 0.125
    if name.lower() in ("int8", "int16", "int32", "uint8", "uint16", "uint32"):
        return 4
    if dt == object or "str" in name:
        d = s.iloc[:1000].dropna()
        try:
            tot = sum(len(v) for v in d)
            return tot / (len(d) or 4) + 4
        except TypeError:
            return 16
    return getattr(dt, "itemsize", 8)


def row_group_sizes(n, rgo):
    """Documented semantics of row_group_offsets (list = explicit starts; None/0 = one group)."""
    if rgo is None or rgo == 0 or n == 0:
        return [n]
    if isinstance(rgo, int):
        nparts = max((n - 1) // rgo + 1, 1)
        size = max(min((n - 1) // nparts + 1, n), 1)
        starts = list(range(0, n, size))
    else:
        starts = list(rgo)
    ends = starts[1:] + [n]
    return [e - s for s, e in zip(starts, ends)]


def bind_options(f, df):
    """Concrete (kwargs, globals) of option features `f` for frame `df`."""
    n = len(df)
    kw, gl = _template(f)
    idx_cols, cols = _written_columns(df, f["write_index"])
    allcols = idx_cols + cols
    if f["codec"] == "dict":
        cyc = ["ZSTD", None, {"type": "GZIP", "args": None}, "BROTLI"]
        comp = {c: cyc[i % len(cyc)] for i, c in enumerate(cols)}
        comp["_default"] = "SNAPPY"
        kw["compression"] = comp
    if f["rgo"] == "int":
        kw["row_group_offsets"] = max(n // 3 + (1 if n % 3 else 0), 1)
    elif f["rgo"] == "list":
        kw["row_group_offsets"] = sorted({0, n // 3, n // 2} - {n}) or [0]
    if f["has_nulls"] == "list":
        # the columns that can hold nulls (correct use of the option); at least the first column
        kw["has_nulls"] = [c for c in cols if allows_series_nulls(df[c])] or cols[:1]
    if f["stats"] == "list":
        kw["stats"] = allcols[::2]
    if f["object_encoding"] == "explicit":
        enc = {}
        for c in cols:
            e = _object_encoding_of(df[c])
            if e:
                enc[c] = e
        kw["object_encoding"] = enc if enc else "infer"
    if f["pages"] > 1:
        sizes = row_group_sizes(n, kw["row_group_offsets"])
        big = max(sizes) if sizes else 0
        if big >= f["pages"] and len(cols):
            per_page = math.ceil(big / f["pages"])
            if math.ceil(big / per_page) < f["pages"]:
                per_page = max(per_page - 1, 1)
            hn = kw["has_nulls"]
            c0 = cols[0]
            opt = hn is True or (isinstance(hn, list) and c0 in hn) or (hn == "infer" and df[c0].dtype == object)
            bpe = bytes_per_element(df[c0]) + (0.125 if opt else 0)
            gl["MAX_PAGE_SIZE"] = max(int(math.ceil(per_page * bpe + 1e-9)), 1)
        else:
            gl["MAX_PAGE_SIZE"] = None
    return kw, gl


def column_optional(has_nulls, s, name):
    """Is column `name` (Series s) written OPTIONAL under the has_nulls option value?"""
    if has_nulls is True or has_nulls is False:
        return has_nulls
    if isinstance(has_nulls, (list, tuple)):
        return name in has_nulls
    return s.dtype == object          # 'infer' / None


def column_compressed(compression, name):
    if isinstance(compression, dict):
        c = compression.get(name)
        if c is None:                      # documented: columns not (or None-) specified use "_default"
            c = compression.get("_default")
    else:
        c = compression
    if isinstance(c, dict):
        c = c.get("type")
    return bool(c) and str(c).upper() != "UNCOMPRESSED"


def page_layout(df, kwargs, globs):
    """Model of the data-page layout the writer produces for the DATA columns of df (documented
    behaviour: row groups by row_group_offsets, pages of int(MAX_PAGE_SIZE // (bytes per element +
    1/8 for an OPTIONAL column)) rows).  -> {column: [chunk, ...]}, chunk = [(n_null, n_value), ...]
    one pair per page.  Only used to derive layout features; compare with chunk_pages(pf)."""
    n = len(df)
    sizes = [z for z in row_group_sizes(n, kwargs.get("row_group_offsets")) if z > 0]
    mps = globs.get("MAX_PAGE_SIZE")
    out = {}
    for name in df.columns:
        s = df[name]
        opt = column_optional(kwargs.get("has_nulls", True), s, str(name))
        isnull = np.asarray(s.isna()) if opt else np.zeros(n, dtype=bool)
        chunks, start = [], 0
        for z in sizes:
            per = None if mps is None else int(mps // (bytes_per_element(s.iloc[start:start + z]) + (0.125 if opt else 0)))
            step = z if not per or per <= 0 else per
            pages = []
            for a in range(start, start + z, step):
                b = min(a + step, start + z)
                k = int(isnull[a:b].sum())
                pages.append((k, b - a - k))
            chunks.append(pages)
            start += z
        out[str(name)] = chunks
    return out


def layout_feature(df, kwargs, globs, kinds):
    """Layout facts per column kind, e.g. 'masked:nm+mx,float:en'  ('-' when there is none):
       nm  a page holding >= 1 null inside a chunk of more than one page
       mx  a page holding both nulls and values
       en  a page without any value (all null) that is not the last page of its chunk
       enu same, in a chunk that is written uncompressed"""
    lay = page_layout(df, kwargs, globs)
    facts = {}
    for (name, chunks), kind in zip(lay.items(), kinds):
        got = facts.setdefault(kind, set())
        unc = not column_compressed(kwargs.get("compression"), name)
        for pages in chunks:
            for i, (k, v) in enumerate(pages):
                if k and len(pages) > 1:
                    got.add("nm")
                if k and v:
                    got.add("mx")
                if k and not v and i < len(pages) - 1:
                    got.add("en")
                    if unc:
                        got.add("enu")
    items = [f"{kind}:{'+'.join(sorted(fs))}" for kind, fs in facts.items() if fs]
    return ",".join(items) or "-"


def chunk_pages(pf, ncols=None):
    """Data pages per column chunk as recorded in the footer: {column: [count per row group]}."""
    out = {}
    for rg in pf.row_groups:
        for c in rg.columns:
            k = sum(e.count for e in (c.meta_data.encoding_stats or []) if e.page_type in (0, 3))
            out.setdefault(".".join(c.meta_data.path_in_schema), []).append(k)
    return out


def allows_series_nulls(s):
    return not (s.dtype.kind in "biu" and isinstance(s.dtype, np.dtype))


@contextlib.contextmanager
def writer_globals(fp, MAX_PAGE_SIZE=None, DATAPAGE_VERSION=None):
    """Set fastparquet.writer.MAX_PAGE_SIZE / DATAPAGE_VERSION for the duration of the block
    (None = leave the library default) and restore the previous values afterwards."""
    w = fp.writer
    old = (w.MAX_PAGE_SIZE, w.DATAPAGE_VERSION)
    try:
        if MAX_PAGE_SIZE is not None:
            w.MAX_PAGE_SIZE = MAX_PAGE_SIZE
        if DATAPAGE_VERSION is not None:
            w.DATAPAGE_VERSION = DATAPAGE_VERSION
        yield
    finally:
        w.MAX_PAGE_SIZE, w.DATAPAGE_VERSION = old


def data_pages(pf):
    """Largest number of data pages of any column chunk, from the footer's encoding_stats
    (page types 0 = DATA_PAGE and 3 = DATA_PAGE_V2; the pinned writer labels both as DATA_PAGE)."""
    best = 0
    for rg in pf.row_groups:
        for c in rg.columns:
            k = sum(e.count for e in (c.meta_data.encoding_stats or []) if e.page_type in (0, 3))
            best = max(best, k)
    return best


def pages_class(k):
    return k if k < 3 else 3


# ---- crash-proof process pool -----------------------------------------------------------------------
def _pool_worker(conn, init, fn):
    state = init() if init else None
    try:
        while True:
            batch = conn.recv()
            if batch is None:
                break
            for idx, item in batch:
                try:
                    r = ("ok", fn(state, item))
                except BaseException as e:      # the worker function is expected to catch its own errors
                    import traceback
                    r = ("error", f"{type(e).__name__}: {e}\n{traceback.format_exc()[-800:]}")
                conn.send((idx, r))
            conn.send(("ready", None))
    except (EOFError, KeyboardInterrupt):
        pass
    finally:
        cleanup = getattr(fn, "cleanup", None)
        if cleanup:
            try:
                cleanup(state)
            except Exception:
                pass


def crashproof_map(fn, items, init=None, workers=None, batch=6, weight=None):
    """Run fn(state, item) for every item in forked worker processes; state = init() once per worker.
    Returns a list (same order as items) of ('ok', result) | ('error', text) | ('crash', text).
    A worker that dies (segfault, abort) only loses the single item it was working on, which is
    reported as ('crash', 'worker died with exit code ...'); the other items of its batch are re-queued.
    fn.cleanup(state), if present, is called when a worker shuts down normally."""
    import multiprocessing as mp
    from multiprocessing.connection import wait
    import os
    ctx = mp.get_context("fork")
    n = len(items)
    results = [None] * n
    order = list(range(n))
    if weight:
        order.sort(key=lambda i: -weight(items[i]))
    queue = [order[i:i + batch] for i in range(0, n, batch)]
    queue.reverse()            # pop() takes the heaviest batch first
    workers = max(1, min(workers or min(16, os.cpu_count() or 2), len(queue) or 1))
    live = {}                  # conn -> [proc, pending idx list]

    def spawn():
        a, b = ctx.Pipe()
        p = ctx.Process(target=_pool_worker, args=(b, init, fn), daemon=True)
        p.start()
        b.close()
        live[a] = [p, []]
        return a

    def feed(conn):
        if queue:
            idxs = queue.pop()
            live[conn][1] = list(idxs)
            conn.send([(i, items[i]) for i in idxs])
        else:
            try:
                conn.send(None)
            except (BrokenPipeError, OSError):
                pass
            p = live.pop(conn)[0]
            conn.close()
            p.join(timeout=10)

    for _ in range(workers):
        feed(spawn())
    while live:
        for conn in wait(list(live)):
            try:
                idx, r = conn.recv()
            except (EOFError, OSError):
                p, pending = live.pop(conn)
                p.join(timeout=10)
                conn.close()
                if pending:
                    results[pending[0]] = ("crash", f"worker process died with exit code {p.exitcode}")
                    if pending[1:]:
                        queue.append(pending[1:])
                if queue:
                    feed(spawn())
                continue
            if idx == "ready":
                feed(conn)
            else:
                results[idx] = r
                live[conn][1].remove(idx)
    return results
