"""C16 (bounded part): key-value metadata verbatim; in-place updates touch nothing else.

History = initial `write(..., custom_metadata=D0)` then <= 4 `fastparquet.writer.update_file_custom_metadata`.
Model: dict key-bytes -> value-bytes (str == its utf-8 bytes; None removes).  Contract after the
write and after EVERY update, on a data file, on `_metadata` and on `_common_metadata`:
  opens   : a fresh ParquetFile opens the file / the dataset;
  kv      : ParquetFile.key_value_metadata == model (+ the library's own 'pandas' entry, value untouched),
            and the raw footer (independent strict IDL decoder) holds exactly these pairs, no duplicates;
  frame   : schema, row groups, num_rows, created_by of the footer unchanged; to_pandas() unchanged;
  bytes   : data bytes [0, footer start) identical; every OTHER file of a dataset untouched;
  framing : footer decodes strictly against the IDL, ends exactly at its length field, and
            file length == footer start + footer length + 8 (no trailing garbage).
"""
import os

import numpy as np
import pandas as pd

from runtime.fsmodel import (build_snippet, decode_footer, file_bytes, footer_kv, footer_span, footer_summary,
                             pool_map, rows_of, snap_diff, snapshot)
from runtime.harness import Case, import_fastparquet, tmpdir

G = "c16.update_history"

# ==== core begin
def c16_b(x):
    return x.encode("utf-8") if isinstance(x, str) else bytes(x)


def c16_canon(b):
    """what ParquetFile.key_value_metadata is specified to show: utf-8 text as str, anything else as bytes"""
    try:
        return b.decode("utf-8")
    except UnicodeDecodeError:
        return b


def c16_unjson(d):
    """specs travel as JSON: {'s:text' | 'b:hex': 's:..' | 'b:..' | None, 'S:char*count'}"""
    def one(x):
        if x is None:
            return None
        tag, body = x[0], x[2:]
        if tag == "s":
            return body
        if tag == "b":
            return bytes.fromhex(body)
        if tag == "S":                      # 'S:v*24' -> 'v' * 24
            ch, n = body.rsplit("*", 1)
            return ch * int(n)
        raise ValueError(x)
    return {one(k): one(v) for k, v in d}


def c16_frame():
    return pd.DataFrame({"x": np.arange(7, dtype="int64"), "f": np.array([0.5, np.nan, 2, 3, 4, 5, 6.25]),
                         "s": pd.Series(["a", None, "ç", "d", "", "f", "g"], dtype=object),
                         "p": np.array([1, 2, 1, 2, 1, 2, 1], dtype="int64")})


def c16_model_update(model, upd):
    for k, v in upd.items():
        kb = c16_b(k)
        if v is None:
            model.pop(kb, None)
        else:
            model[kb] = c16_b(v)


def c16_observe(fp, target, openpath, readpath):
    """everything the contract looks at, from a fresh open and from the bytes"""
    b = file_bytes(target)
    is_meta = os.path.basename(target) in ("_metadata", "_common_metadata")
    start, n = footer_span(b, metadata_file=is_meta)
    fmd = decode_footer(b, strict=True)                 # raises on any IDL violation / slack
    pf = fp.ParquetFile(openpath)
    kvm = dict(pf.key_value_metadata)
    df = fp.ParquetFile(readpath).to_pandas()
    return {"bytes": b, "start": start, "flen": n, "summary": footer_summary(fmd), "kv": footer_kv(fmd),
            "kvm": kvm, "rows": rows_of(df), "columns": sorted(df.columns)}


def c16_check(obs, model, base, others_before, others_after, pandas_expected="base"):
    """base: observation right after the initial write; pandas_expected: what the library's own 'pandas' entry must be now
    ("base" = as written; it changes only when an update names that key).  -> None | text"""
    b = obs["bytes"]
    if len(b) != obs["start"] + obs["flen"] + 8:
        return f"file length {len(b)} != footer start {obs['start']} + footer length {obs['flen']} + 8"
    if b[:obs["start"]] != base["bytes"][:base["start"]] or obs["start"] != base["start"]:
        return f"data bytes [0,{base['start']}) changed (footer start now {obs['start']})"
    if obs["summary"] != base["summary"]:
        diff = [k for k in obs["summary"] if obs["summary"][k] != base["summary"][k]]
        return f"footer fields other than key_value_metadata changed: {diff}"
    if obs["rows"] != base["rows"] or obs["columns"] != base["columns"]:
        return "to_pandas() changed"
    kv = obs["kv"]
    keys = [k for k, _v in kv]
    if len(set(keys)) != len(keys):
        return f"duplicate keys in the footer: {keys}"
    raw = dict(kv)
    pandas_before = dict(base["kv"]).get(b"pandas") if isinstance(pandas_expected, str) else pandas_expected
    if raw.get(b"pandas") != pandas_before:
        return "the library's own 'pandas' entry changed" if isinstance(pandas_expected, str) else \
            f"the 'pandas' entry is not what the update named for it (present: {b'pandas' in raw})"
    raw.pop(b"pandas", None)
    if raw != model:
        return f"footer key-values {sorted(raw.items())[:4]} != model {sorted(model.items())[:4]}" \
               f" (only in footer: {sorted(set(raw) - set(model))[:4]}, only in model: {sorted(set(model) - set(raw))[:4]})"
    want = {c16_canon(k): c16_canon(v) for k, v in model.items()}
    got = dict(obs["kvm"])
    got.pop("pandas", None)
    if got != want:
        return f"ParquetFile.key_value_metadata {sorted(got.items(), key=repr)[:4]} != model {sorted(want.items(), key=repr)[:4]}"
    a, r, c = snap_diff(others_before, others_after)
    if a or r or c:
        return f"other files of the dataset touched: added={a} removed={r} changed={c}"
    return None


def c16_run(fp, spec, root):
    """-> (None | text, list of observed footer-length deltas)"""
    kind = spec["target"]
    initial = c16_unjson(spec["initial"])
    updates = [c16_unjson(u) for u in spec["updates"]]
    df = c16_frame()
    if kind == "data":
        target = os.path.join(root, "one.parquet")
        fp.write(target, df, custom_metadata=dict(initial), row_group_offsets=[0, 4])
        openpath = readpath = target
        ds = None
    else:
        ds = os.path.join(root, "ds")
        # a categorical column: writer.consolidate_categories then rewrites the 'pandas' entry on every summary write / directory open -
        # the user keys around that entry must survive it
        df = df.assign(c=pd.Categorical(["u", "v", "u", "w", "v", "u", "w"]))
        fp.write(ds, df, file_scheme="hive", partition_on=["p"] if spec.get("partitioned") else [],
                 custom_metadata=dict(initial), row_group_offsets=[0, 4])
        target = os.path.join(ds, kind)
        openpath = ds if kind == "_metadata" else target
        readpath = ds

    def others():
        if ds is None:
            return {}
        s = snapshot(ds)
        s.pop(kind, None)
        return s

    model = {}
    c16_model_update(model, initial)
    deltas = []
    try:
        base = c16_observe(fp, target, openpath, readpath)
    except Exception as e:
        return f"after the initial write: {type(e).__name__}: {str(e)[:200]}", deltas
    o0 = others()
    r = c16_check(base, model, base, o0, o0)
    if r:
        return "after the initial write: " + r, deltas
    prev_len = base["flen"]
    pandas_expected = "base"
    for i, upd in enumerate(updates):
        before = others()
        try:
            fp.writer.update_file_custom_metadata(target, dict(upd))
        except Exception as e:
            return f"update {i} {spec['updates'][i]}: raised {type(e).__name__}: {str(e)[:200]}", deltas
        c16_model_update(model, upd)
        if any(c16_b(k) == b"pandas" for k in upd):
            # the update names the library's own entry: it is an ordinary key then (removed / replaced as asked)
            pandas_expected = model.get(b"pandas")
        model.pop(b"pandas", None)
        try:
            obs = c16_observe(fp, target, openpath, readpath)
        except Exception as e:
            return f"after update {i} {spec['updates'][i]}: {type(e).__name__}: {str(e)[:200]}", deltas
        deltas.append(obs["flen"] - prev_len)
        prev_len = obs["flen"]
        r = c16_check(obs, model, base, before, others(), pandas_expected)
        if r:
            return f"after update {i} {spec['updates'][i]}: {r}", deltas
    return None, deltas
# ==== core end


def S(ch, n):
    return "S:%s*%d" % (ch, n)


INITIALS = {
    "none": [],
    "str": [("s:k", "s:v"), ("s:other", "s:o")],
    "bytes": [("b:" + b"k".hex(), "b:" + b"\x00\x01binary".hex())],
    "unicode": [("s:cl\u00e9", "s:v\u00e4lue \u2603"), ("s:k", S("\u00fc", 12))],
    "emptystr": [("s:", "s:"), ("s:k", "s:")],
    "nonutf8": [("s:raw", "b:fffe00"), ("s:k", "s:v")],
    "large": [("s:big", S("L", 100_000)), ("s:k", "s:v")],
    "binkey": [("b:" + b"sig\xe2(".hex(), "s:bytes key that is not valid UTF-8"), ("s:k", "s:v")],
    "many": [("s:k%d" % i, S("v", i)) for i in range(12)],
}
SCRIPTS = {
    "add-replace-remove": [[("s:a", "s:1")], [("s:a", "s:22"), ("s:b", "b:" + b"bytes".hex())], [("s:a", None)],
                           [("s:b", None), ("s:c", S("\u00fc", 3))]],
    "existing-key": [[("s:k", None)], [("s:k", "s:again")], [("b:" + b"k".hex(), "b:" + b"same entry via bytes key".hex())],
                     [("s:k", "s:")]],
    "large-in-out": [[("s:big2", S("B", 100_000))], [("s:big2", "s:small")], [("s:big2", None)], []],
    "absent-and-empty": [[("s:nonexistent", None)], [("s:\u00e9", S("\u2603", 5)), ("s:", "s:emptykey")],
                         [("s:\u00e9", None), ("s:", None)]],
    "nonutf8": [[("s:raw", "b:fffe00")], [("s:raw", "b:ff")], [("b:fffe", "s:binkey")], [("b:fffe", None), ("s:raw", None)]],
    "remove-all-then-add": [[("s:k", None), ("s:other", None), ("s:big", None), ("s:raw", None), ("s:cl\u00e9", None),
                             ("s:", None)] + [("s:k%d" % i, None) for i in range(12)],
                            [("s:z", "s:z")], [("s:z", "s:z")]],
    # the LAST key goes too (the pandas entry the writer adds itself): an empty key-value list is a legal footer
    "remove-every-key": [[("s:k", None), ("s:other", None), ("s:big", None), ("s:raw", None), ("s:cl\u00e9", None),
                          ("s:", None)] + [("s:k%d" % i, None) for i in range(12)], [("s:pandas", None)], [("s:pandas", None)],
                         [("s:back", "s:again")], [("s:back", None)]],
}
TARGETS = [("data", False), ("_metadata", False), ("_metadata", True), ("_common_metadata", True)]


def enumerate_specs(tier, seed):
    specs = []
    # family 1: replace one value by one that is d bytes longer / shorter, then back: footer delta +d, -d
    for target, part in TARGETS:
        for d in range(-16, 17):
            specs.append({"family": "resize", "target": target, "partitioned": part, "delta": d,
                          "initial": [("s:k", S("v", 24)), ("s:other", "s:o")],
                          "updates": [[("s:k", S("v", 24 + d))], [("s:k", S("v", 24))]]})
    # family 2: delta from dropping one key and adding another in the same update (entry moves to the end)
    for target, part in TARGETS[:2]:
        for d in range(-16, 17):
            specs.append({"family": "swap", "target": target, "partitioned": part, "delta": d,
                          "initial": [("s:old", S("o", 20)), ("s:keep", "s:1")],
                          "updates": [[("s:old", None), ("s:new", S("n", 20 + d))], [("s:keep", None)],
                                      [("s:new", None), ("s:old", S("o", 20))], [("s:keep", "s:1")]]})
    # family 3: kinds of initial dict x update scripts x target
    for target, part in TARGETS:
        for iname, init in INITIALS.items():
            for sname, script in SCRIPTS.items():
                if tier == "quick" and (target, part) in (("_metadata", True), ("_common_metadata", True)) and \
                        (list(INITIALS).index(iname) + list(SCRIPTS).index(sname)) % 3:
                    continue
                specs.append({"family": "kinds", "target": target, "partitioned": part, "delta": None,
                              "initial": init, "initial_kind": iname, "script": sname, "updates": script})
    if tier == "thorough":
        import random
        rng = random.Random(seed)
        keys = ["s:k", "s:a", "s:\u00e9", "b:fffe", "s:", "s:other"]
        for _ in range(400):
            target, part = rng.choice(TARGETS)
            ups = []
            for _u in range(rng.randint(1, 4)):
                ups.append([(k, rng.choice([None, S("v", rng.randint(0, 40)), "b:" + bytes([rng.randint(0, 255)]).hex()]))
                            for k in rng.sample(keys, rng.randint(0, 3))])
            specs.append({"family": "random", "target": target, "partitioned": part, "delta": None,
                          "initial": rng.choice(list(INITIALS.values())), "updates": ups, "script": "seeded"})
    return specs


def features_of(spec):
    f = {"family": spec["family"], "target": spec["target"], "partitioned": bool(spec["partitioned"]),
         "n_updates": len(spec["updates"])}
    if spec["family"] in ("resize", "swap"):
        f["delta"] = spec["delta"]
    else:
        f["initial"] = spec.get("initial_kind", "seeded")
        f["script"] = spec["script"] if spec["family"] == "kinds" else repr(spec["updates"])[:200]
    return f


def snippet_of(spec):
    tail = "\n".join([
        "root = tempfile.mkdtemp(prefix='verif-c16-')",
        "try:",
        "    WHAT, DELTAS = c16_run(fp, SPEC, root)",
        "finally:",
        "    shutil.rmtree(root, ignore_errors=True)",
        "print(WHAT, DELTAS)",
        "VIOLATED = WHAT is not None",
    ])
    return build_snippet(__file__, spec, tail)


_FP = None


def _worker(spec):
    global _FP
    if _FP is None:
        _FP = import_fastparquet()
    with tmpdir("verif-c16-") as root:
        try:
            return c16_run(_FP, spec, root)
        except Exception as e:
            return f"history could not be run: {type(e).__name__}: {str(e)[:200]}", []


def run_bounded(ctx):
    ctx.bounded_group(G, rule=(
        "targets: single data file (2 row groups) | _metadata of an unpartitioned hive dataset | _metadata and "
        "_common_metadata of a partitioned one.  Families: resize = one value replaced by one d bytes longer, then "
        "back, d in -16..16 (footer length delta +d then -d); swap = drop a key and add another in one update, "
        "d in -16..16, 4 updates; kinds = 8 initial dicts (none, str, bytes, unicode, empty strings, non-utf8 bytes, "
        "100 kB value, 12 keys) x 6 update scripts of 3..4 updates (add/replace/remove mixes, str and bytes spelling "
        "of one key, empty update, removal of absent keys, 100 kB in and out, remove everything); thorough adds 400 "
        "seeded random histories.  Checked after the write and after every update.  The run fails (engine error) "
        "unless every footer-length delta in -16..16 was observed on a data file and on a _metadata file."))
    specs = enumerate_specs(ctx.tier, ctx.seed)
    results = pool_map(_worker, specs, chunksize=4)
    seen = {"data": set(), "_metadata": set(), "_common_metadata": set()}
    for spec, (what, deltas) in zip(specs, results):
        seen[spec["target"]].update(deltas)
        with Case(ctx, G, features_of(spec), snippet=snippet_of(spec),
                  contract="after every update: kv == model, frame/schema/row groups/data bytes unchanged, footer strict-"
                           "decodes, length == footer start + footer len + 8") as c:
            if what is not None:
                c.fail(what)
    for t in ("data", "_metadata"):
        missing = [d for d in range(-16, 17) if d not in seen[t]]
        if missing and not ctx.violations:
            ctx.engine_error(f"c16: footer-length deltas {missing} never produced on target {t}")
    ctx.note("c16: observed footer-length deltas per target: " +
             "; ".join(f"{t}: {min(v) if v else None}..{max(v) if v else None} ({len(v)} distinct)" for t, v in seen.items()))
