"""C07 (bounded): append adds rows at the end and leaves existing data untouched.

Contract (evaluated on the real `fastparquet.write(..., append=True)` / `ParquetFile.write_row_groups`
after EVERY step of an enumerated history, dataset re-opened from disk each time):
  values : fresh read == rows of the original write followed by the rows of each append in order
           (partitioned datasets: batches in order, rows of one batch as a multiset - the statement
           fixes the order of batches only), every value intact;
  cat    : same for the categorical column (separate case so that the known relabelling defect
           cannot mask anything else);
  bytes  : single file: new_bytes[:F] == old_bytes[:F] with F = old_len - 8 - old_footer_len read
           from the old trailer; multi-file: every pre-existing data file still present under its
           name with identical bytes (no rewrite / truncate / rename).
Second family: the same contract on datasets that already hold >= 11 part files and / or whose part numbering has
holes (row groups removed with remove_row_groups, part names left alone) before the appends.
Third family: appended frames that are schema-compatible (same column names and dtypes) but carry their columns in a
DIFFERENT ORDER than the dataset (reversed / rotated / int and float column swapped / alphabetical; per step), over
single-file, hive, partitioned hive and drill datasets, both append entry points; the columns have mixed dtypes
(int64, float64 with fractional values, text, categorical, int64 / text partition candidates), so that a column
stored under another column's name or schema element shows in the values.
"""
import os

import numpy as np
import pandas as pd

from runtime.fsmodel import (base_frame, build_snippet, data_files, describe_diff, file_bytes, footer_span,
                             pool_map, rows_of, same_multiset, snap_diff, snapshot)
from runtime.harness import Case, import_fastparquet, tmpdir

G = "c07.append_history"

# ==== core begin
# batch alphabet: letter -> (rows, nulls, category labels, codes used by the rows)
BATCHES = {
    "A": (5, "some", ("u", "v"), (0, 1)),        # base batch, both labels in use
    "E": (0, "none", ("u", "v"), (0, 1)),        # empty batch (no row group is written)
    "N": (1, "all", ("u", "v"), (0,)),           # one row, every nullable value null
    "X": (3, "none", ("u", "v", "w"), (2, 0)),   # category set extended at the end (compatible codes)
    "D": (4, "some", ("u", "z"), (0, 1)),        # different category set: code 1 means 'z' here
    "S": (2, "none", ("u",), (0,)),              # smaller category set
    "M": (9, "some", ("u", "v"), (1, 0)),        # larger batch, split into several row groups
    "U": (3, "some", ("u", "v"), (0,)),          # uses label 'u' only (code 0)
    "L": (12, "some", ("u", "v"), (0, 1)),       # long original: written as up to 12 row groups = 12 part files
}
CODECS = [None, "GZIP", "SNAPPY", "ZSTD", "LZ4", {"x": "GZIP", "_default": None}]
RGOS = ["none", "int2", "half", "int1000"]


def c07_rgo(kind, n):
    if kind == "int2":
        return 2
    if kind == "half" and n >= 2:
        return [0, n // 2]
    if kind == "int1000":
        return 1000
    return None


def c07_frames(spec):
    """the frames of the history (batch 0 = original write), row ids globally unique"""
    out, start = [], 0
    for letter in spec["batches"]:
        n, nulls, cats, use = BATCHES[letter]
        out.append(base_frame(start, n, nulls=nulls, cats=cats, cat_use=use, parts=2, idx=spec["idx"]))
        start += n
    return out


def c07_orig_offsets(spec, n):
    """row_group_offsets of the ORIGINAL write: an explicit list (spec['orig_offsets']) or the rotating kind"""
    off = spec.get("orig_offsets")
    return [o for o in off if o < n] if off else c07_rgo(spec["rgos"][0], n)


def c07_orig_row_groups(spec):
    """row positions (in the original frame) held by each row group of an original written with EXPLICIT offsets,
    in the order of the dataset's row-group list: chunk by chunk, inside a chunk one row group per partition key,
    keys sorted.  Also -> the relative file name of each (format convention <k=v dirs>/part.<chunk>.parquet)."""
    n = BATCHES[spec["batches"][0]][0]
    off = c07_orig_offsets(spec, n)
    f0 = base_frame(0, n, parts=2)
    groups, names = [], []
    for i, st in enumerate(off):
        en = off[i + 1] if i + 1 < len(off) else n
        if not spec["part"]:
            groups.append(list(range(st, en)))
            names.append("part.%d.parquet" % i)
            continue
        keys = sorted(set(tuple(f0[p].iloc[j] for p in spec["part"]) for j in range(st, en)))
        for k in keys:
            groups.append([j for j in range(st, en) if tuple(f0[p].iloc[j] for p in spec["part"]) == k])
            if spec["scheme"] == "drill":
                names.append("/".join(str(v) for v in k) + "/part.%d.parquet" % i)
            else:
                names.append("/".join("%s=%s" % (p, v) for p, v in zip(spec["part"], k)) + "/part.%d.parquet" % i)
    return groups, names


def c07_surviving(spec):
    """-> (row positions of the original frame still in the dataset after the preparatory removals, in dataset
    order; file names still holding them)"""
    n = BATCHES[spec["batches"][0]][0]
    if not spec.get("pre"):
        return list(range(n)), None
    groups, names = c07_orig_row_groups(spec)
    for op in spec["pre"]:
        assert op[0] == "remove"
        gone = set(op[1])
        groups = [g for i, g in enumerate(groups) if i not in gone]
        names = [m for i, m in enumerate(names) if i not in gone]
    return [j for g in groups for j in g], names


def c07_part_numbers(path):
    """part numbers of the data files below path, read from the DIRECTORY (not from fastparquet)"""
    import re
    nums = []
    for _r, _d, fs in os.walk(path):
        for fn in fs:
            m = re.match(r"part\.(\d+)\.parquet$", fn)
            if m:
                nums.append(int(m.group(1)))
    return sorted(nums)


def c07_cat_conflict(spec):
    """Region of the known defect, computed from the input alone: after some step the dictionary of
    the LAST written row group gives another label (or none) to a code used by an earlier batch."""
    b = [BATCHES[l] for l in spec["batches"]]
    for k in range(1, len(b)):
        nonempty = [j for j in range(k + 1) if b[j][0] > 0 and (j > 0 or c07_surviving(spec)[0])]
        if not nonempty:
            continue
        last = b[nonempty[-1]][2]
        for j in nonempty[:-1]:
            n, _nulls, cats, use = b[j]
            rows = c07_surviving(spec)[0] if j == 0 else range(n)
            for code in sorted(set(use[i % len(use)] for i in rows)):
                if code >= len(last):
                    return "out-of-range"
                if cats[code] != last[code]:
                    return "relabel"
    return "none"


def c07_expected(frame, spec):
    """frame as the dataset is expected to give it back: index as a column, drill names dir0/dir1"""
    df = frame.reset_index() if spec["idx"] else frame
    if spec["scheme"] == "drill" and spec["part"]:
        df = df.rename(columns={p: "dir%d" % i for i, p in enumerate(spec["part"])})
    return df


def c07_check_values(fp, path, spec, frames, upto, cat):
    """-> None or text.  cat=False: all columns but 'c' (read with a column selection, so a failure
    to materialise the categorical column cannot hide them); cat=True: column c (+ row id)."""
    exp = [c07_expected(f, spec) for f in frames[:upto + 1]]
    if spec.get("pre"):
        exp[0] = exp[0].iloc[c07_surviving(spec)[0]]
    allcols = list(exp[0].columns)
    cols = ["x", "c"] if cat else [c for c in allcols if c != "c"]
    pf = fp.ParquetFile(path)
    if cat:
        got_df = pf.to_pandas(index=False) if spec["idx"] else pf.to_pandas()
    else:
        got_df = pf.to_pandas(columns=cols, index=False) if spec["idx"] else pf.to_pandas(columns=cols)
    missing = [c for c in cols if c not in got_df.columns]
    if missing:
        return f"columns {missing} missing from the read-back frame {list(got_df.columns)}"
    got = rows_of(got_df, cols)
    want_segments = [rows_of(e, cols) for e in exp]
    want = [r for seg in want_segments for r in seg]
    if len(got) != len(want):
        return describe_diff(got, want)
    if spec["part"]:
        p = 0
        for i, seg in enumerate(want_segments):
            g = got[p:p + len(seg)]
            p += len(seg)
            if not same_multiset(g, seg):
                return f"rows of batch {i} (positions {p - len(seg)}..{p}) differ: got {g[:4]} want {seg[:4]}"
    elif got != want:
        return describe_diff(got, want)
    if spec["idx"] == "dt" and not cat and not spec["part"]:
        full = pf.to_pandas(columns=[c for c in cols if c != "idx"])
        gi = [pd.Timestamp(v).value for v in full.index]
        wi = [pd.Timestamp(v).value for e in exp for v in e["idx"]]
        if gi != wi:
            return f"materialised index differs: {gi[:3]} want {wi[:3]}"
    return None


def c07_check_bytes(path, spec, before):
    """before: snapshot(with_bytes=True) taken before the append"""
    after = snapshot(path, with_bytes=True)
    if spec["scheme"] == "simple":
        old, new = before[""][2], after[""][2]
        F, n = footer_span(old)
        if new[:F] != old[:F]:
            k = next(i for i in range(F) if i >= len(new) or new[i] != old[i])
            return f"bytes [0,{F}) of the single file changed (first difference at offset {k}, new length {len(new)})"
        return None
    added, removed, changed = snap_diff(data_files(before), data_files(after))
    if removed or changed:
        return f"pre-existing data files removed={removed} changed={changed} (added={added})"
    return None


COL_ORDERS = ["same", "reversed", "rotate1", "rotate3", "swap_int_float", "alphabetical"]


def c07_reorder(df, kind):
    """the same frame with its COLUMNS in another order (same names, same dtypes, same values)"""
    cols = list(df.columns)
    if kind == "reversed":
        cols = cols[::-1]
    elif kind == "rotate1":
        cols = cols[1:] + cols[:1]
    elif kind == "rotate3":
        cols = cols[3:] + cols[:3]
    elif kind == "swap_int_float":
        i, j = cols.index("x"), cols.index("f")
        cols[i], cols[j] = cols[j], cols[i]
    elif kind == "alphabetical":
        cols = sorted(cols)
    elif kind != "same":
        raise ValueError(kind)
    return df[cols]


def c07_append(fp, path, spec, frame, step):
    codec = CODECS[spec["codecs"][step]]
    rgo = c07_rgo(spec["rgos"][step], len(frame))
    order = (spec.get("col_order") or ["same"] * (step + 1))[step]
    if spec["api"] == "write":
        fp.write(path, c07_reorder(frame, order), file_scheme=spec["scheme"], partition_on=spec["part"], append=True,
                 compression=codec, row_group_offsets=rgo)
    else:
        pf = fp.ParquetFile(path)
        pf.write_row_groups(c07_reorder(c07_expected(frame, spec), order), row_group_offsets=rgo, compression=codec)


def c07_run_history(fp, spec, root):
    """-> {'values': None|text, 'cat': None|text, 'bytes': None|text}; first failing step wins"""
    path = os.path.join(root, "ds")
    frames = c07_frames(spec)
    res = {"values": None, "cat": None, "bytes": None}
    f0 = frames[0]
    fp.write(path, f0, file_scheme=spec["scheme"], partition_on=spec["part"],
             compression=CODECS[spec["codecs"][0]], row_group_offsets=c07_orig_offsets(spec, len(f0)))
    for op in spec.get("pre") or []:
        # preparatory step (not under contract here, C09's business): remove row groups, part names left as they are
        pf = fp.ParquetFile(path)
        pf.remove_row_groups([pf.row_groups[i] for i in op[1]])
    if spec["scheme"] != "simple":
        nums = c07_part_numbers(path)
        res["_files_before"] = len(nums)
        res["_hole"] = bool(nums) and len(set(nums)) < max(nums) + 1
        names = c07_surviving(spec)[1]
        if names is not None:
            have = sorted(r for r in data_files(snapshot(path)))
            if have != sorted(names):       # the state this history is about was not reached: said in the result, no failure
                res["_state"] = f"after the preparatory removals the data files are {have}, expected {sorted(names)}"

    def guarded(fn, *a):
        try:
            return fn(*a)
        except Exception as e:  # a raising READ is a contract failure of this aspect
            return f"{type(e).__name__}: {str(e)[:200]}"

    for k in range(1, len(frames)):
        before = snapshot(path, with_bytes=True)
        try:
            c07_append(fp, path, spec, frames[k], k)
        except Exception as e:
            msg = f"step {k}: append of a schema-compatible frame raised {type(e).__name__}: {str(e)[:200]}"
            for a in ("values", "cat", "bytes"):
                res[a] = res[a] or msg
            return res
        for aspect, fn, args in (("bytes", c07_check_bytes, (path, spec, before)),
                                 ("values", c07_check_values, (fp, path, spec, frames, k, False)),
                                 ("cat", c07_check_values, (fp, path, spec, frames, k, True))):
            if res[aspect] is None:
                r = guarded(fn, *args)
                if r:
                    res[aspect] = f"step {k} ({spec['batches'][k]}): {r}"
    return res
# ==== core end


CONFIGS = [
    # scheme, partition_on, index, api
    ("simple", [], None, "write"),
    ("simple", [], None, "wrg"),
    ("simple", [], "dt", "write"),
    ("simple", [], "int", "wrg"),
    ("hive", [], None, "write"),
    ("hive", ["p"], None, "write"),
    ("hive", ["p", "q"], None, "write"),
    ("hive", ["p"], None, "wrg"),
    ("hive", ["p"], "int", "write"),
    ("hive", [], "dt", "wrg"),
    ("drill", [], None, "write"),
    ("drill", ["p"], None, "wrg"),     # write(append=True) refuses drill+partitions up front (ValueError): C18's business
]
LETTERS = "AENXDSMU"


def histories(tier, seed):
    """(initial letter, tuple of append letters).  Not seed-dependent in the quick tier."""
    L = LETTERS
    out = []
    for a in L:
        out.append(("A", (a,)))
    for a in L:
        for b in L:
            out.append(("A", (a, b)))
    n = len(L)
    for i in range(n):               # length 3: a covering design, every pair of positions sees all pairs
        for j in range(n):
            out.append(("A", (L[i], L[j], L[(i + 2 * j + 1) % n])))
    for init in "EMU":               # other originals: empty, several row groups, one label only
        for a in L:
            out.append((init, (a,)))
        for i in range(n):
            out.append((init, (L[i], L[(3 * i + 2) % n])))
    if tier == "thorough":
        import random
        rng = random.Random(seed)
        for ln in (3, 4, 5):
            for _ in range(150):
                out.append((rng.choice("AEMU"), tuple(rng.choice(L) for _ in range(ln))))
    return out


# second family: the existing dataset has MANY part files (>= 11: numbers with two digits) and / or a part numbering
# with HOLES (row groups removed with remove_row_groups, default sort_pnames=False) before the appends
MANY_CONFIGS = [
    ("hive", [], None, "write"),
    ("hive", ["p"], None, "write"),
    ("hive", ["p", "q"], None, "wrg"),
    ("hive", [], "dt", "wrg"),
    ("drill", [], None, "write"),
    ("drill", ["p"], None, "wrg"),
]
# original letter, explicit offsets of the original write, removals (indices into the row-group list)
MANY_STATES = [
    ("A", [0, 2, 4], None), ("A", [0, 2, 4], [0]), ("A", [0, 2, 4], [1]), ("A", [0, 2, 4], [2]), ("A", [0, 2, 4], [0, 1]),
    ("L", list(range(12)), None), ("L", list(range(12)), [0]), ("L", list(range(12)), [0, 1, 2]),
    ("L", list(range(12)), [5]), ("L", list(range(12)), [9]), ("L", list(range(12)), [10]), ("L", list(range(12)), [11]),
    ("L", list(range(11)), None), ("L", list(range(11)), [3, 9]),
]
MANY_APPENDS = ["A", "M", "N", "X", "E", "D", "AA", "MA", "AM", "NM", "EA"]


def enumerate_many(tier):
    specs = []
    for ci, (scheme, part, idx, api) in enumerate(MANY_CONFIGS):
        for si, (orig, offsets, removed) in enumerate(MANY_STATES):
            for ai, apps in enumerate(MANY_APPENDS):
                if tier == "quick" and len(apps) == 2 and (ci + si + ai) % 2:
                    continue            # quick: every single append, half of the pairs
                batches = orig + apps
                steps = len(batches)
                spec = {
                    "scheme": scheme, "part": part, "idx": idx, "api": api, "batches": batches,
                    "codecs": [(ci + si + ai + 2 * s) % len(CODECS) for s in range(steps)],
                    "rgos": [RGOS[(ci + si + ai + s) % len(RGOS)] for s in range(steps)],
                    "orig_offsets": offsets,
                }
                if removed is not None:
                    spec["pre"] = [["remove", removed]]
                specs.append(spec)
    return specs


# third family: the appended frame carries the dataset's columns in ANOTHER ORDER
REORDER_CONFIGS = [
    ("simple", [], None, "write"),
    ("simple", [], None, "wrg"),
    ("simple", [], "dt", "write"),
    ("hive", [], None, "write"),
    ("hive", [], "int", "wrg"),
    ("hive", ["p"], None, "write"),
    ("hive", ["p"], None, "wrg"),
    ("hive", ["p", "q"], None, "write"),
    ("hive", ["q"], "dt", "write"),
    ("drill", [], None, "write"),
    ("drill", ["p"], None, "wrg"),
]
# original + appends (no categorical conflict: that known finding must not interfere), column order of each append
REORDER_HISTORIES = [("AA", 1), ("AM", 1), ("AN", 1), ("AX", 1), ("MA", 1), ("AAA", 2), ("AMA", 2), ("UAM", 2)]


def enumerate_reordered(tier):
    specs = []
    orders = COL_ORDERS[1:]
    for ci, (scheme, part, idx, api) in enumerate(REORDER_CONFIGS):
        for hi, (batches, napp) in enumerate(REORDER_HISTORIES):
            for oi, order in enumerate(orders):
                if tier == "quick" and hi >= 2 and (ci + hi + oi) % 3:
                    continue            # quick: every order for the first two histories, a third of the rest
                steps = len(batches)
                # two appends: the second one in another order (or in the dataset's own order again)
                col_order = ["same", order] + ([(orders + ["same"])[(oi + ci + 2) % (len(orders) + 1)]] if napp == 2 else [])
                specs.append({
                    "scheme": scheme, "part": part, "idx": idx, "api": api, "batches": batches,
                    "codecs": [(ci + hi + oi + 2 * s) % len(CODECS) for s in range(steps)],
                    "rgos": [RGOS[(ci + hi + oi + s) % len(RGOS)] for s in range(steps)],
                    "col_order": col_order,
                })
    return specs


def enumerate_specs(tier, seed):
    specs = []
    hs = histories(tier, seed)
    for ci, (scheme, part, idx, api) in enumerate(CONFIGS):
        for hi, (init, apps) in enumerate(hs):
            if init == "E" and part:
                # an empty partitioned dataset has no partition directories, so fastparquet cannot know its
                # partitioning and refuses every partitioned append up front (ValueError, nothing touched):
                # a refusal, not an append - outside C07's antecedent (C18 covers refusals)
                continue
            if tier == "quick" and len(apps) == 3 and ci % 3 != hi % 3:
                continue             # quick: a third of the length-3 design per configuration
            if tier == "quick" and len(apps) == 2 and ci >= 2 and (hi + ci) % 2:
                continue             # quick: ALL pairs for the first two configurations, half of them for the others
            batches = init + "".join(apps)
            steps = len(batches)
            spec = {
                "scheme": scheme, "part": part, "idx": idx, "api": api, "batches": batches,
                "codecs": [(ci + hi + 2 * s) % len(CODECS) for s in range(steps)],
                "rgos": [RGOS[(ci + hi // 3 + s) % len(RGOS)] for s in range(steps)],
            }
            specs.append(spec)
    return specs + enumerate_many(tier) + enumerate_reordered(tier)


def features_of(spec, aspect, res=None):
    res = res or {}
    pre = spec.get("pre")
    return {
        "original_row_groups": len(spec["orig_offsets"]) if spec.get("orig_offsets") else "by_rgo",
        "removed_before": ",".join(str(i) for op in pre for i in op[1]) if pre else "none",
        "files_before": "n/a" if "_files_before" not in res else (">=11" if res["_files_before"] >= 11 else "<11"),
        "part_numbering": "n/a" if "_hole" not in res else ("hole" if res["_hole"] else "dense"),
        "scheme": spec["scheme"], "partition_on": ",".join(spec["part"]), "index": spec["idx"] or "none",
        "api": spec["api"], "original": spec["batches"][0], "appends": spec["batches"][1:],
        "col_order": ",".join(spec["col_order"][1:]) if spec.get("col_order") else "same",
        "codecs": ",".join(str(c) for c in spec["codecs"]), "rgo": ",".join(spec["rgos"]),
        "aspect": aspect, "cat_conflict": c07_cat_conflict(spec) if aspect == "cat" else "n/a",
    }


def snippet_of(spec, aspect):
    tail = "\n".join([
        "root = tempfile.mkdtemp(prefix='verif-c07-')",
        "try:",
        "    RES = c07_run_history(fp, SPEC, root)",
        "finally:",
        "    shutil.rmtree(root, ignore_errors=True)",
        "print(RES)",
        "VIOLATED = RES[%r] is not None" % aspect,
    ])
    return build_snippet(__file__, spec, tail)


_FP = None


def _worker(spec):
    global _FP
    if _FP is None:
        _FP = import_fastparquet()
    try:
        with tmpdir("verif-c07-") as root:
            return c07_run_history(_FP, spec, root)
    except Exception as e:   # failure of the ORIGINAL write or of the oracle: engine-level, reported as failed case
        msg = f"history could not be run: {type(e).__name__}: {str(e)[:200]}"
        return {"values": msg, "cat": msg, "bytes": msg}


# ---- fourth family: frames with a MultiIndex row index, written in slices ----------------------------------------------------
G_MI = "c07.multiindex"
MI_CUTS = [[(0, 3), (3, 5), (5, 8)], [(0, 2), (2, 8)], [(0, 6), (6, 7), (7, 8)], [(0, 4), (4, 8)], [(0, 1), (1, 2), (2, 3), (3, 8)]]


def c07_mi_frame(levels_used):
    import numpy as np
    import pandas as pd
    site = list("aabbccdd") if levels_used == "sorted" else list("dacabdcb")
    n = [0, 1, 0, 1, 0, 1, 0, 1]
    return pd.DataFrame({"v": np.arange(8.0), "w": list("klmnopqr")},
                        index=pd.MultiIndex.from_arrays([site, n], names=["site", "n"]))


def c07_mi_case(spec):
    """-> None | text.  Each slice of the frame uses only some labels of each index level (its categories differ from slice to
    slice unless the writer keeps the frame's full level sets): after every append the dataset reads as the rows written so far"""
    import os
    fp = import_fastparquet()
    scheme, cuts, used = spec
    df = c07_mi_frame(used)
    try:
        with tmpdir("verif-c07mi-") as root:
            path = os.path.join(root, "x.parq" if scheme == "simple" else "ds")
            for i, (a, b) in enumerate(cuts):
                fp.write(path, df.iloc[a:b], file_scheme=scheme, append=bool(i))
                want = df.iloc[:b]
                pf = fp.ParquetFile(path)
                flat = pf.to_pandas(index=False)
                got = list(zip(flat["site"].astype(str), [int(x) for x in flat["n"]], [float(x) for x in flat["v"]], flat["w"].astype(str)))
                exp = list(zip([t[0] for t in want.index], [int(t[1]) for t in want.index], [float(x) for x in want["v"]], list(want["w"])))
                if got != exp:
                    return f"after step {i} (rows {a}:{b}) index levels as columns: {got[:4]} != written {exp[:4]}"
                full = pf.to_pandas()
                gi = [(str(t[0]), int(t[1])) for t in full.index]
                if gi != [(t[0], int(t[1])) for t in want.index] or [float(x) for x in full["v"]] != [float(x) for x in want["v"]]:
                    return f"after step {i} (rows {a}:{b}) full read: index {gi[:4]} != written {list(want.index)[:4]}"
        return None
    except Exception as e:
        return f"raised {type(e).__name__}: {str(e)[:200]}"


def run_multiindex(ctx):
    from runtime.harness import robust_map, WorkerDied
    ctx.bounded_group(G_MI, rule=(
        "a frame with a two-level MultiIndex row index (8 rows, levels site in a..d and n in 0..1; index sorted / unsorted) written in "
        f"contiguous slices {MI_CUTS} by write() + write(append=True), simple and hive: after EVERY step a fresh open gives back the rows "
        "written so far - the index levels as columns (index=False) and the materialised index of the full read"))
    specs = [(scheme, cuts, used) for scheme in ("simple", "hive") for cuts in MI_CUTS for used in ("sorted", "unsorted")]
    for spec, res in zip(specs, robust_map(c07_mi_case, specs, 8)):
        feats = {"scheme": spec[0], "cuts": str(spec[1]), "index_order": spec[2], "steps": len(spec[1])}
        with Case(ctx, G_MI, feats, nontrivial=True,
                  contract="after every append: read == concatenation of the slices written so far (MultiIndex levels and values)") as c:
            if isinstance(res, WorkerDied):
                c.fail(res.what())
            elif res is not None:
                c.fail(res)


# ---- fifth family: the appended frame's numeric dtype differs from the dataset column's, its values fit ------------------------
G_ND = "c07.numeric_dtype"
ND_PAIRS = [("float64", "int64"), ("float64", "int32"), ("float64", "float32"), ("int64", "int32"), ("int64", "int8"), ("float32", "int16")]


def c07_nd_case(spec):
    """-> None | text.  The dataset column keeps its type; the appended values (whole numbers every listed dtype holds exactly)
    must read back as the same numbers."""
    import os
    fp = import_fastparquet()
    scheme, api, (col, app) = spec
    try:
        with tmpdir("verif-c07nd-") as root:
            path = os.path.join(root, "x.parq" if scheme == "simple" else "ds")
            first = pd.DataFrame({"x": np.array([0, 1, 2, 3], dtype=col), "k": np.arange(4, dtype="int64"), "p": ["a", "b", "a", "b"]})
            new = pd.DataFrame({"x": np.array([7, 8, 9, 100], dtype=app), "k": np.arange(4, 8, dtype="int64"), "p": ["a", "b", "b", "b"]})
            kw = {"partition_on": ["p"]} if api == "overwrite" else {}
            fp.write(path, first, file_scheme=scheme, write_index=False, **kw)
            if api == "write_row_groups":
                fp.ParquetFile(path).write_row_groups(new)
                want = list(first["x"]) + list(new["x"])
            elif api == "overwrite":
                fp.write(path, new, file_scheme=scheme, append="overwrite", write_index=False, **kw)
                want = None                      # compared as a multiset of (k, x): partitions a, b are both replaced
            else:
                fp.write(path, new, file_scheme=scheme, append=True, write_index=False)
                want = list(first["x"]) + list(new["x"])
            out = fp.ParquetFile(path).to_pandas()
            if want is None:
                got, exp = sorted(zip(map(int, out["k"]), map(float, out["x"]))), sorted(zip(map(int, new["k"]), map(float, new["x"])))
            else:
                got, exp = [float(v) for v in out["x"]], [float(v) for v in want]
            if got != exp:
                return f"dataset column {col}, frame column {app}: read {got[:8]} != written {exp[:8]} (dtype read: {out['x'].dtype})"
            if str(out["x"].dtype) != col:
                return f"dataset column {col} reads back as {out['x'].dtype} after a {app} frame was added"
        return None
    except Exception as e:
        return f"raised {type(e).__name__}: {str(e)[:200]}"


def run_numeric_dtype(ctx):
    from runtime.harness import robust_map, WorkerDied
    ctx.bounded_group(G_ND, rule=(
        f"dataset column dtype / appended frame column dtype in {ND_PAIRS} (appended values 7, 8, 9, 100: exact in every listed dtype) x "
        "simple | hive x write(append=True) | ParquetFile.write_row_groups | write(append='overwrite') on a partitioned hive dataset: "
        "the rows added read back as the numbers written and the column keeps the dataset's dtype"))
    specs = [(scheme, api, pair) for pair in ND_PAIRS for scheme, api in (("simple", "append"), ("hive", "append"), ("hive", "write_row_groups"),
                                                                          ("hive", "overwrite"))]
    for spec, res in zip(specs, robust_map(c07_nd_case, specs, 8)):
        feats = {"scheme": spec[0], "api": spec[1], "dataset_dtype": spec[2][0], "frame_dtype": spec[2][1]}
        with Case(ctx, G_ND, feats, nontrivial=True,
                  contract="after the append: the added rows read back as the numbers written, in the dataset column's dtype") as c:
            if isinstance(res, WorkerDied):
                c.fail(res.what())
            elif res is not None:
                c.fail(res)


def run_bounded(ctx):
    run_multiindex(ctx)
    run_numeric_dtype(ctx)
    ctx.bounded_group(G, rule=(
        "histories = original write + 1..3 appends (thorough: ..5, seeded sample) over the batch alphabet "
        f"{ {k: v[:2] + (list(v[2]),) for k, v in BATCHES.items()} } (rows, nulls, category labels): all sequences of "
        "length 1 and 2 (quick: all pairs for 2 configurations, every second pair for the other 10; thorough: all), a "
        "pair-covering design of length 3 (quick: a third of it per configuration), originals A/E(mpty)/M(ulti row group)/U; x 12 dataset "
        "configurations (simple | hive | drill; partition_on none/p/p,q; index none/datetime/int64; "
        "fastparquet.write(append=True) | ParquetFile.write_row_groups); codec and row_group_offsets rotate per step "
        "over 6 codecs x 4 offset kinds.  Checked after every step on a fresh open.  Three cases per history "
        "(aspect = bytes | values | cat).  Written index is observed as a column (index=False) because its "
        "materialisation is a C01 finding; drill+partition appends go through write_row_groups because "
        "write(append=True) refuses them up front.  ||  SECOND FAMILY (state of the existing dataset): "
        f"{len(MANY_CONFIGS)} multi-file configurations (hive/drill, partition_on none/p/p,q, datetime index, write|write_row_groups) x "
        f"{len(MANY_STATES)} dataset states before the first append: original written with EXPLICIT row_group_offsets as 3, 11 or 12 "
        "row groups (part.0 .. part.10/11: two-digit numbers, >= 11 files) and then none / first / middle / last / "
        "several row groups removed with ParquetFile.remove_row_groups (default sort_pnames=False), leaving HOLES in the "
        "part numbering below the maximum (part.1,part.2 / part.0..part.10 without part.5 / part.3..part.11 / ...) x "
        f"appends {MANY_APPENDS} (quick: half of the two-append histories); expected rows = surviving original "
        "rows (computed from the offsets and the partition keys) then each batch; every data file present before an "
        "append must stay present with identical bytes; files_before / part_numbering features are read from the directory."
        f"  ||  THIRD FAMILY (column order of the appended frame): {len(REORDER_CONFIGS)} configurations (simple / hive / drill, "
        "partition_on none/p/q/p,q, index none/datetime/int64, write(append=True) | write_row_groups) x histories "
        f"{[h for h, _ in REORDER_HISTORIES]} x column orders {COL_ORDERS[1:]} of the appended frame(s) (two appends: two "
        "different orders); columns x int64 / f float64 (fractional) / s text / c categorical / p int64 / q text (+ idx), "
        "same names and dtypes as the dataset; quick: every order for the first two histories, a third of the others."))
    specs = enumerate_specs(ctx.tier, ctx.seed)
    results = pool_map(_worker, specs, chunksize=8)
    for spec, res in zip(specs, results):
        if res.get("_state"):
            ctx.note("c07: intended dataset state not reached, cases counted as trivial: " + res["_state"][:300])
        for aspect in ("bytes", "values", "cat"):
            nontrivial = any(BATCHES[l][0] > 0 for l in spec["batches"][1:]) or aspect == "bytes"
            if res.get("_state"):
                nontrivial = False
            with Case(ctx, G, features_of(spec, aspect, res), snippet=snippet_of(spec, aspect), nontrivial=nontrivial,
                      contract="after every append: read == concatenation of batches in order; old bytes [0,F) / "
                               "old data files unchanged") as c:
                if res[aspect] is not None:
                    c.fail(res[aspect])
                elif aspect == "cat" and c07_cat_conflict(spec) != "none":
                    ctx.note("known-finding region passes now (defect repaired?): " + spec["batches"] + " " + spec["scheme"])
