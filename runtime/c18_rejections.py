"""C18 (bounded): rejected operations raise and leave an existing dataset exactly as it was.

Contract per case: the operation raises an exception, AND afterwards the dataset that existed before
the call (a) single file: is byte-identical, (b) multi-file: every pre-existing file is still there
with identical bytes (new unreferenced part files may be left behind), and in both cases a fresh
`ParquetFile(path).to_pandas()` gives exactly the rows it gave before.

Scope (DESIGN C18): a non-append `write` onto an existing path replaces it by request - only its
up-front rejections (bad file_scheme, non-text / duplicate column names, unsupported dtype) are
enumerated for mode 'write'; value-level rejections and the unknown codec are enumerated for
mode 'append' (existing dataset must survive) and mode 'fresh' (new path: must raise).
"""
import os

import numpy as np
import pandas as pd

from runtime.fsmodel import build_snippet, pool_map, rows_of, snap_diff, snapshot
from runtime.harness import Case, import_fastparquet, tmpdir

G = "c18.rejections"

# ==== core begin
C18_RGO = {1: None, 2: [0, 3], 3: [0, 2, 4]}
# kind -> (class, good values of column k, how the existing dataset declares k)
C18_LATE_ROW = ("null-in-required", "unencodable-str-as-int", "unencodable-int-as-utf8", "unencodable-set-as-json")
C18_LATE_COL = ("unsupported-type", "unknown-codec-column")
C18_LATE = C18_LATE_ROW + C18_LATE_COL + ("unknown-codec-global",)
C18_UPFRONT_APPEND = ("different-columns-extra", "different-columns-missing", "different-columns-renamed",
                      "non-text-name", "duplicate-name", "different-scheme", "different-partitioning", "bad-file-scheme")
C18_UPFRONT_WRITE = ("unsupported-type", "non-text-name", "duplicate-name", "bad-file-scheme")
C18_READ = ("unknown-column-selection", "unknown-column-filter", "unknown-column-filter-rowfilter")


def c18_good_k(kind, n, start=0):
    ids = list(range(start, start + n))
    if kind == "unencodable-str-as-int":
        return pd.Series([i * 3 for i in ids], dtype=object)
    if kind == "unencodable-set-as-json":
        return pd.Series([{"i": i} for i in ids], dtype=object)
    if kind in ("unsupported-type",):
        return pd.Series([i + 0.25 for i in ids], dtype="float64")
    return pd.Series(["k%d" % i for i in ids], dtype=object)


def c18_declare(kind):
    """write options that declare column k the way the rejection kind needs"""
    if kind == "null-in-required":
        return {"has_nulls": False}
    if kind == "unencodable-str-as-int":
        return {"object_encoding": {"k": "int"}}
    if kind == "unencodable-int-as-utf8":
        return {"object_encoding": {"k": "utf8"}}
    if kind == "unencodable-set-as-json":
        return {"object_encoding": {"k": "json"}}
    return {}


def c18_frame(kind, col_pos, partitioned, n=6, start=0):
    """columns f1 (int64), f2 (float64) and k at position first/middle/last (+ p when partitioned)"""
    cols = {"f1": np.arange(start, start + n, dtype="int64"), "f2": np.arange(start, start + n) / 4.0}
    k = c18_good_k(kind, n, start)
    order = {"first": ["k", "f1", "f2"], "middle": ["f1", "k", "f2"], "last": ["f1", "f2", "k"]}[col_pos or "middle"]
    cols["k"] = k
    df = pd.DataFrame({c: cols[c] for c in order})
    if partitioned:
        df["p"] = np.array([1, 2] * (n // 2) + [1] * (n % 2), dtype="int64")
    return df


def c18_bad_frame(kind, col_pos, rg_pos, partitioned):
    """the offending frame (6 rows, written with row_group_offsets [0, 3]): bad value in row 0 (first row
    group) or row 4 (later row group)"""
    df = c18_frame(kind, col_pos, partitioned, start=100)
    r = 0 if rg_pos != "later" else 4
    if kind == "null-in-required":
        df.loc[r, "k"] = None
    elif kind == "unencodable-str-as-int":
        df.loc[r, "k"] = "zz"
    elif kind == "unencodable-int-as-utf8":
        df["k"] = pd.Series([7 if i == r else v for i, v in enumerate(df["k"])], dtype=object)
    elif kind == "unencodable-set-as-json":
        df["k"] = pd.Series([{1, 2} if i == r else v for i, v in enumerate(df["k"])], dtype=object)
    elif kind == "unsupported-type":
        df["k"] = df["k"].astype("complex128")
    elif kind == "different-columns-extra":
        pos = list(df.columns).index("k")
        df.insert(pos, "extra", 1)
    elif kind == "different-columns-missing":
        df = df.drop(columns=["k"])
    elif kind == "different-columns-renamed":
        df = df.rename(columns={"k": "k2"})
    elif kind == "non-text-name":
        df = df.rename(columns={"k": 0})
    elif kind == "duplicate-name":
        df.columns = ["f1" if c == "k" else c for c in df.columns] if col_pos != "first" else \
            ["f2" if c == "k" else c for c in df.columns]
    return df


def c18_operation(fp, spec, path):
    """-> callable performing the operation that must be rejected"""
    kind, mode = spec["kind"], spec["mode"]
    scheme = spec["scheme"]
    part = ["p"] if spec["partitioned"] else []
    if mode == "read":
        pos = {"first": 0, "middle": 1, "last": 2}[spec["col_pos"]]
        if kind == "unknown-column-selection":
            cols = ["f1", "f2"]
            cols.insert(pos, "nope")
            return lambda: fp.ParquetFile(path).to_pandas(columns=cols)
        flt = [("f1", ">=", 0), ("f2", "<", 1000.0)]
        flt.insert(pos, ("nope", ">", 1))
        rf = kind.endswith("rowfilter")
        return lambda: fp.ParquetFile(path).to_pandas(filters=flt, row_filter=rf)
    df = c18_bad_frame(kind, spec["col_pos"], spec["rg_pos"], spec["partitioned"])
    kw = {"file_scheme": scheme, "partition_on": part, "row_group_offsets": [0, 3]}
    if mode == "append":
        kw["append"] = True
    else:
        kw.update(c18_declare(kind))
    if kind == "unknown-codec-column":
        kw["compression"] = {"k": "NOPE"}
    elif kind == "unknown-codec-global":
        kw["compression"] = "NOPE"
    elif kind == "different-scheme":
        kw["file_scheme"] = "hive" if scheme == "simple" else "simple"
        if kw["file_scheme"] == "simple":
            kw["partition_on"] = []
    elif kind == "different-partitioning":
        kw["partition_on"] = [] if part else ["f1"]
    elif kind == "bad-file-scheme":
        kw["file_scheme"] = "weird"
    return lambda: fp.write(path, df, **kw)


def c18_run(fp, spec, root):
    """-> None | text"""
    path = os.path.join(root, "ds")
    mode = spec["mode"]
    if mode != "fresh":
        df0 = c18_frame(spec["kind"], spec["col_pos"], spec["partitioned"])
        fp.write(path, df0, file_scheme=spec["scheme"], partition_on=["p"] if spec["partitioned"] else [],
                 row_group_offsets=C18_RGO[spec["n_rg"]], **c18_declare(spec["kind"]))
        before = snapshot(path)
        rows_before = rows_of(fp.ParquetFile(path).to_pandas())
        if len(rows_before) != 6:
            return "oracle problem: the existing dataset does not read back its 6 rows"
    op = c18_operation(fp, spec, path)
    try:
        op()
    except Exception as e:
        raised = e
    else:
        return "no exception was raised"
    if mode == "fresh":
        return None
    after = snapshot(path)
    added, removed, changed = snap_diff(before, after)
    if spec["scheme"] == "simple":
        if added or removed or changed:
            try:
                fp.ParquetFile(path).to_pandas()
                rd = "still opens"
            except Exception as e:
                rd = f"no longer opens: {type(e).__name__}"
            return f"{type(raised).__name__} raised, but the single file is no longer byte-identical " \
                   f"(size {before[''][0]} -> {after.get('', (None,))[0]}; {rd})"
    elif removed or changed:
        return f"{type(raised).__name__} raised, but pre-existing files removed={removed} changed={changed}"
    try:
        rows_after = rows_of(fp.ParquetFile(path).to_pandas())
    except Exception as e:
        return f"{type(raised).__name__} raised, and afterwards the dataset is unreadable: {type(e).__name__}: {str(e)[:120]}"
    if rows_after != rows_before:
        return f"{type(raised).__name__} raised, and afterwards the dataset reads {len(rows_after)} rows / other content"
    return None
# ==== core end


STATES = [("simple", False), ("hive", False), ("hive", True)]
POS = ("first", "middle", "last")


def written_before_failure(spec):
    """bytes reach the file before the operation fails: a late (conversion / codec) failure of an append
    in any column but the first one written, or in a later row group"""
    return bool(spec["mode"] == "append" and spec["kind"] in C18_LATE and spec["kind"] != "unknown-codec-global"
                and not (spec["col_pos"] == "first" and spec["rg_pos"] == "first"))


def enumerate_specs(tier, seed):
    specs = []

    def add(mode, kind, col_pos, rg_pos, scheme, part, n_rg):
        specs.append({"mode": mode, "kind": kind, "col_pos": col_pos, "rg_pos": rg_pos, "scheme": scheme,
                      "partitioned": part, "n_rg": n_rg})

    for scheme, part in STATES:
        for n_rg in (1, 2, 3):
            for kind in C18_LATE_ROW:
                for cp in POS:
                    for rp in ("first", "later"):
                        add("append", kind, cp, rp, scheme, part, n_rg)
            for kind in C18_LATE_COL:
                for cp in POS:
                    add("append", kind, cp, "first", scheme, part, n_rg)
            add("append", "unknown-codec-global", None, "first", scheme, part, n_rg)
            for kind in C18_UPFRONT_APPEND:
                if kind == "different-partitioning" and scheme == "simple":
                    continue      # partition_on is documented as ignored for file_scheme='simple': not a rejection
                if kind in ("different-scheme", "different-partitioning", "bad-file-scheme"):
                    add("append", kind, None, None, scheme, part, n_rg)
                else:
                    for cp in POS:
                        add("append", kind, cp, None, scheme, part, n_rg)
            for kind in C18_UPFRONT_WRITE:
                if kind == "bad-file-scheme":
                    add("write", kind, None, None, scheme, part, n_rg)
                else:
                    for cp in POS:
                        add("write", kind, cp, None, scheme, part, n_rg)
            for kind in C18_READ:
                for cp in POS:
                    add("read", kind, cp, None, scheme, part, n_rg)
        # new path: the rejection itself
        for kind in C18_LATE_ROW:
            for cp in POS:
                for rp in ("first", "later"):
                    add("fresh", kind, cp, rp, scheme, part, 0)
        for kind in C18_LATE_COL:
            for cp in POS:
                add("fresh", kind, cp, "first", scheme, part, 0)
        add("fresh", "unknown-codec-global", None, "first", scheme, part, 0)
    return specs


def features_of(spec):
    return {"mode": spec["mode"], "kind": spec["kind"], "col_pos": spec["col_pos"] or "n/a", "rg_pos": spec["rg_pos"] or "n/a",
            "scheme": spec["scheme"], "partitioned": spec["partitioned"], "existing_row_groups": spec["n_rg"],
            "written_before_failure": written_before_failure(spec)}


def snippet_of(spec):
    tail = "\n".join([
        "root = tempfile.mkdtemp(prefix='verif-c18-')",
        "try:",
        "    WHAT = c18_run(fp, SPEC, root)",
        "finally:",
        "    shutil.rmtree(root, ignore_errors=True)",
        "print(WHAT)",
        "VIOLATED = WHAT is not None",
    ])
    return build_snippet(__file__, spec, tail)


_FP = None


def _worker(spec):
    global _FP
    if _FP is None:
        _FP = import_fastparquet()
    import warnings
    warnings.simplefilter("ignore")
    with tmpdir("verif-c18-") as root:
        try:
            return c18_run(_FP, spec, root)
        except Exception as e:
            return f"case could not be run: {type(e).__name__}: {str(e)[:200]}"


def run_bounded(ctx):
    ctx.bounded_group(G, rule=(
        "existing dataset = 6 rows, columns f1 int64 / f2 float64 / k (type per rejection kind) with k first | middle | "
        "last, as single file | hive | hive partitioned on p, written as 1 | 2 | 3 row groups.  mode append: value-"
        f"level kinds {list(C18_LATE_ROW)} with the bad value in the first or a later row group of the appended frame "
        f"(row_group_offsets [0,3]); column-level kinds {list(C18_LATE_COL)}; unknown codec for all columns; up-front "
        f"kinds {list(C18_UPFRONT_APPEND)}.  mode write (non-append onto the existing path): {list(C18_UPFRONT_WRITE)} "
        f"only (late failures there destroy what the caller asked to replace - out of scope).  mode read: {list(C18_READ)} "
        "with the unknown name first | middle | last in the list.  mode fresh (new path): the value/column-level kinds "
        "must raise.  Exhaustive product, not sampled."))
    specs = enumerate_specs(ctx.tier, ctx.seed)
    results = pool_map(_worker, specs, chunksize=8)
    for spec, what in zip(specs, results):
        with Case(ctx, G, features_of(spec), snippet=snippet_of(spec),
                  contract="operation raises; pre-existing dataset byte-identical (single file) / files untouched "
                           "(multi-file) and reads back its previous rows") as c:
            if what is not None:
                c.fail(what)
            elif written_before_failure(spec) and spec["scheme"] == "simple":
                ctx.note("known-finding region passes now (defect repaired?): " + str(features_of(spec)))
