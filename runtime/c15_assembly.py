"""C15 bounded stand-in: LIST and MAP columns are assembled into the right per-row lists / dicts.

Two groups, both exhaustive inside a stated bound and both judged by the independent Dremel
assembly `spec.assembly.record_assemble` (which must also reproduce the rows handed to the encoder):

  c15.kernel  the real compiled `fastparquet.cencoding._assemble_objects`, driven page by page exactly
              as `core.read_col` drives it for v1 pages (definition levels = None when the page has no
              nulls, `row_idx = 1 + result`, dictionary dereference flag), for every table of <= R rows with
              collection lengths 0..3 / null rows / null elements and EVERY split of the level sequence into
              <= 3 pages (also inside a row);
  c15.files   whole files from the independent encoder `spec.pqwrite` (LIST 3-level layout, MAP key_value
              layout; v1 pages split anywhere, v2 pages split at row starts as the format requires; PLAIN or
              dictionary values; 1..2 row groups) through `ParquetFile(f).to_pandas()`; plus chunks of 3 and 4
              pages with unequal rows per page (v2 + dictionary, every page holding a null; one or two row groups)
              that exercise the row cursor carried from page to page.

Shapes: optional/required LIST<optional/required INT32>, optional/required MAP<required UTF8, optional INT64>.
Contract: post(result) := result rows == record_assemble(def, rep, values, ...) == rows given to the encoder
(null rows None, empty collections empty, null elements None, order kept).  A raising read fails the contract.
"""
import base64
import itertools
import os
import sys
import time
from concurrent.futures import ProcessPoolExecutor

from runtime.harness import Case
from vlib.common import REPO

G_KERNEL, G_FILES = "c15.kernel", "c15.files"
CONTRACT = ("rows returned == spec.assembly.record_assemble(definition levels, repetition levels, values) == rows "
            "given to the independent encoder; raising is a failure")

SHAPES = [('list', True, True), ('list', True, False), ('list', False, True), ('list', False, False),
          ('map', True, True), ('map', False, True)]


# ------------------------------------------------------------------------------------------------
# enumeration of tables and page splits
# ------------------------------------------------------------------------------------------------
def row_kinds(outer_opt, elem_opt, maxlen):
    """Row patterns: 'N' null row, 'E' empty collection, or a string over {v: value, n: null element}."""
    out = (['N'] if outer_opt else []) + ['E']
    for ln in range(1, maxlen + 1):
        for t in itertools.product('vn' if elem_opt else 'v', repeat=ln):
            out.append(''.join(t))
    return out


def tables(outer_opt, elem_opt, maxrows, maxlen):
    ks = row_kinds(outer_opt, elem_opt, maxlen)
    for n in range(1, maxrows + 1):
        for t in itertools.product(ks, repeat=n):
            yield t


def materialise(shape, table):
    """Pattern table -> logical rows (what the encoder is given / the reader must return)."""
    rows, k = [], 0
    for r in table:
        if r == 'N':
            rows.append(None)
        elif r == 'E':
            rows.append([] if shape == 'list' else {})
        else:
            if shape == 'list':
                row = []
                for c in r:
                    k += 1
                    row.append(k if c == 'v' else None)
            else:
                row = {}
                for c in r:
                    k += 1
                    row['k%d' % k] = (100 + k) if c == 'v' else None
            rows.append(row)
    return rows


def entries_of(table):
    """Number of level entries per row (a null / empty row takes one entry)."""
    return [1 if r in ('N', 'E') else len(r) for r in table]


def splits(n_entries, max_pages, allowed=None):
    """All ways to cut n_entries level entries into <= max_pages non-empty pages (cut positions, ascending)."""
    pos = list(range(1, n_entries)) if allowed is None else [p for p in allowed if 0 < p < n_entries]
    for k in range(0, max_pages):
        for c in itertools.combinations(pos, k):
            yield c


def continuation_kinds(table, cuts, elem_opt_col=True):
    """How each page after the first begins, relative to rows.  For one leaf whose null pattern is `table`:
       row_start            the page begins with a new row
       value_then_row       continues the previous row, an element with a VALUE comes before the next row start
       nulls_only_then_row  continues the previous row by NULL elements only, then a new row starts in the page
       whole_page_value / whole_page_nulls   the whole page continues the previous row"""
    flat = []          # (is_row_start, is_value)
    for r in table:
        if r in ('N', 'E'):
            flat.append((True, False))
        else:
            for j, c in enumerate(r):
                flat.append((j == 0, c == 'v'))
    bounds = list(cuts) + [len(flat)]
    kinds = []
    for i, c in enumerate(cuts):
        page = flat[c:bounds[i + 1]]
        if page[0][0]:
            kinds.append('row_start')
            continue
        cont = list(itertools.takewhile(lambda e: not e[0], page))
        has_val = any(v for _, v in cont)
        if len(cont) == len(page):
            kinds.append('whole_page_value' if has_val else 'whole_page_nulls')
        else:
            kinds.append('value_then_row' if has_val else 'nulls_only_then_row')
    return kinds


def whole_page_midchunk(kinds):
    """A page that only continues the previous row and is followed by a further page of the chunk."""
    return any(k.startswith('whole_page') for k in kinds[:-1])


def table_str(table):
    return '/'.join(table)


# ------------------------------------------------------------------------------------------------
# group c15.kernel
# ------------------------------------------------------------------------------------------------
def _levels(shape, outer_opt, elem_opt, rows):
    """Shred with spec.pqwrite (an independent implementation of the shredding direction)."""
    from spec import pqwrite as W
    if shape == 'list':
        return [W.shred_list(rows, outer_opt, elem_opt)]
    rows2 = [None if r is None else list(r.items()) for r in rows]
    k, v = W.shred_map(rows2, outer_opt, elem_opt)
    return [k, v]


def kernel_case(fp_cenc, np, shape, outer_opt, elem_opt, table, cuts, use_dict):
    """Drive _assemble_objects as core.read_col does.  -> (ok, what)."""
    from spec import assembly
    rows = materialise(shape, table)
    leaves = _levels(shape, outer_opt, elem_opt, rows)
    results = []
    for li, (defs, reps, vals, max_def, max_rep) in enumerate(leaves):
        is_key = shape == 'map' and li == 0
        e_opt = False if is_key else elem_opt
        want = assembly.record_assemble(defs, reps, vals, max_def, max_rep,
                                        {'kind': 'list', 'outer_optional': outer_opt, 'elem_optional': e_opt})
        guard = object()
        full = np.empty(len(rows) + 8, dtype=object)      # 8 guard slots behind the row group's rows: bounds checks are
        full[len(rows):] = guard                            # compiled out of the kernel, a stray store must not hit the heap
        assign = full
        bounds = [0] + list(cuts) + [len(defs)]
        row_idx = 0
        vi = 0
        if use_dict:
            uniq = sorted(set(vals), key=str)
            dic = np.array(uniq, dtype=object)
        else:
            dic = None
        for a, b in zip(bounds[:-1], bounds[1:]):
            pdef = defs[a:b]
            nv = sum(1 for d in pdef if d == max_def)
            pvals = vals[vi:vi + nv]
            vi += nv
            defi = None if nv == len(pdef) else np.array(pdef, dtype=np.uint8)       # read_def: None when no nulls
            rep = np.array(reps[a:b], dtype=np.uint8)
            if use_dict:
                val = np.array([uniq.index(x) for x in pvals], dtype=np.int64)
            else:
                val = np.empty(len(pvals), dtype=object)
                val[:] = pvals
            row_idx = 1 + fp_cenc._assemble_objects(assign, defi, rep, val, dic, bool(use_dict),
                                                    bool(outer_opt), bool(e_opt), max_def, row_idx)
        if any(x is not guard for x in full[len(rows):]):
            return False, "leaf %d: stored beyond the %d rows of the row group: %r" % (li, len(rows), [
                x for x in full[len(rows):].tolist() if x is not guard])
        got = [None if r is None else [None if x is None else x for x in r] for r in full[:len(rows)].tolist()]
        results.append(got)
        if got != want:
            return False, "leaf %d: got %r, record assembly gives %r" % (li, got, want)
    if shape == 'list':
        final = results[0]
    else:
        final = [None if k is None else dict(zip(k, v)) for k, v in zip(results[0], results[1])]
    if final != rows:
        return False, "got %r, rows were %r" % (final, rows)
    return True, ""


def _kernel_worker(args):
    (shape, outer_opt, elem_opt), tier, repo, part, nparts = args
    if repo not in sys.path:
        sys.path.insert(0, repo)
    import numpy as np
    import fastparquet.cencoding as ce
    items = []
    for ti, table in enumerate(kernel_tables(tier, outer_opt, elem_opt)):
        if ti % nparts != part:
            continue
        ne = sum(entries_of(table))
        for cuts in splits(ne, 3):
            items.append((table, cuts, (ti + len(cuts)) % 2 == 1))
    res = resilient(lambda it: kernel_case(ce, np, shape, outer_opt, elem_opt, it[0], it[1], it[2]), items)
    out = []        # compact: (table_str, cuts, use_dict, continuation, midchunk, ok, what)
    for (table, cuts, use_dict), (ok, what) in zip(items, res):
        kinds = continuation_kinds(table, cuts)
        out.append((table_str(table), ','.join(map(str, cuts)), use_dict, '>'.join(kinds) or 'single_page',
                    whole_page_midchunk(kinds), ok, what))
    return (shape, outer_opt, elem_opt), out


# ------------------------------------------------------------------------------------------------
# group c15.files
# ------------------------------------------------------------------------------------------------
def build_file(shape, outer_opt, elem_opt, table, cuts, version, use_dict, rg_split, cuts2=()):
    """-> (file bytes, expected rows).  rg_split: None or the row index where a second row group starts;
    `cuts` are entry positions inside the FIRST row group, `cuts2` entry positions inside the second one
    (relative to its first entry; default: a single page)."""
    from spec import pqwrite as W
    rows = materialise(shape, table)
    if shape == 'list':
        col = W.ListSpec('c', W.ColumnSpec('element', 'INT32', optional=elem_opt), optional=outer_opt)
        enc_rows = rows
    else:
        col = W.MapSpec('c', W.ColumnSpec('key', 'BYTE_ARRAY', converted='UTF8'),
                        W.ColumnSpec('value', 'INT64', optional=elem_opt), optional=outer_opt)
        enc_rows = [None if r is None else list(r.items()) for r in rows]
    enc = ('RLE_DICTIONARY' if version == 2 else 'PLAIN_DICTIONARY') if use_dict else 'PLAIN'
    rgs = [enc_rows] if rg_split is None else [enc_rows[:rg_split], enc_rows[rg_split:]]
    ent = entries_of(table)
    n0 = sum(ent) if rg_split is None else sum(ent[:rg_split])
    lay = {(0, 'c'): W.ChunkLayout(pages=W.split_pages(n0, cuts, version=version, encoding=enc),
                                   dictionary='auto' if use_dict else None)}
    if rg_split is not None:
        pages2 = (W.split_pages(sum(ent[rg_split:]), cuts2, version=version, encoding=enc) if cuts2 else
                  [W.PageLayout(version=version, encoding=enc)])
        lay[(1, 'c')] = W.ChunkLayout(pages=pages2, dictionary='auto' if use_dict else None)
    data = W.encode_file([col], [{'c': r} for r in rgs], lay)
    return data, rows


NORMALISE_SRC = r'''
def normalise(col):
    """Result column -> plain python rows (numpy scalars to int, missing to None)."""
    out = []
    for r in col:
        if r is None:
            out.append(None)
        elif isinstance(r, dict):
            out.append({k: (None if v is None else int(v)) for k, v in r.items()})
        else:
            out.append([None if x is None else int(x) for x in r])
    return out
'''
_ns = {}
exec(NORMALISE_SRC, _ns)
normalise = _ns['normalise']


def file_case(fastparquet, case):
    import io
    from spec import assembly, pqwrite as W
    shape, outer_opt, elem_opt, table, cuts, version, use_dict, rg_split = case[:8]
    data, rows = build_file(*case)
    # oracle cross-check: record assembly of the shredded levels gives back the rows (engine assertion, not a contract)
    for lv in _levels(shape, outer_opt, elem_opt, rows)[-1:]:
        d, r, v, md_, mr_ = lv
        back = assembly.record_assemble(d, r, v, md_, mr_, {'kind': 'list', 'outer_optional': outer_opt, 'elem_optional': elem_opt})
        want = [None if x is None else (list(x.values()) if isinstance(x, dict) else x) for x in rows]
        assert back == want, ("oracle disagreement", back, want)
    try:
        df = fastparquet.ParquetFile(io.BytesIO(data)).to_pandas()
        got = normalise(df['c'])
    except Exception as e:
        return False, "read raised %s: %s" % (type(e).__name__, str(e)[:150])
    if got != rows:
        return False, "got %r, expected %r" % (got, rows)
    return True, ""


def file_features(case):
    shape, outer_opt, elem_opt, table, cuts, version, use_dict, rg_split = case[:8]
    cuts2 = tuple(case[8]) if len(case) > 8 else ()
    ent = entries_of(table)
    kinds = continuation_kinds(table if rg_split is None else table[:rg_split], cuts)
    midchunk = whole_page_midchunk(kinds)
    if cuts2:
        kinds2 = continuation_kinds(table[rg_split:], cuts2)
        midchunk = midchunk or whole_page_midchunk(kinds2)
        kinds = kinds + kinds2
    # per leaf and page: does the page hold an entry without a value (v2 header num_nulls > 0)?  per row group and leaf:
    # is there any value at all (else an 'auto' dictionary page has zero entries)?
    groups = [(table, cuts)] if rg_split is None else [(table[:rg_split], cuts), (table[rg_split:], cuts2)]
    page_no_nulls, empty_dictionary = False, False
    for t, cs in groups:
        leaves = [[]] if shape == 'list' else [[], []]          # list: element leaf; map: key leaf, value leaf
        for r in t:
            if r in ('N', 'E'):
                for lf in leaves:
                    lf.append(False)
            else:
                leaves[-1].extend(c == 'v' for c in r)
                if shape == 'map':
                    leaves[0].extend(True for _ in r)
        for lf in leaves:
            bounds = [0] + list(cs) + [len(lf)]
            if any(all(lf[a:b]) for a, b in zip(bounds[:-1], bounds[1:])):
                page_no_nulls = True
            if not any(lf):
                empty_dictionary = True
    return {
        'shape': shape, 'outer_optional': outer_opt, 'elem_optional': elem_opt, 'version': version,
        'values': 'dict' if use_dict else 'plain', 'table': table_str(table), 'rows': len(table),
        'cuts': ','.join(map(str, cuts)) + ('|' + ','.join(map(str, cuts2)) if cuts2 else ''),
        'pages': max(len(cuts), len(cuts2)) + 1, 'row_groups': 1 if rg_split is None else 2,
        'rg_split': -1 if rg_split is None else rg_split,
        'continuation': '>'.join(kinds) or 'none', 'whole_page_midchunk': midchunk,
        'has_null_row': 'N' in table, 'has_empty': 'E' in table,
        'has_null_elem': any('n' in r for r in table if r not in ('N', 'E')),
        'only_null_rows': all(r == 'N' for r in table),
        'v2_page_no_nulls': bool(version == 2 and page_no_nulls),
        'empty_dictionary': bool(use_dict and empty_dictionary),
    }


def kernel_tables(tier, outer_opt, elem_opt):
    """quick: every table of <= 3 rows, collection lengths 0..3.  thorough: additionally every 4-row table with lengths 0..2."""
    yield from tables(outer_opt, elem_opt, 3, 3)
    if tier == 'thorough':
        for t in tables(outer_opt, elem_opt, 4, 2):
            if len(t) == 4:
                yield t


def file_tables(tier, outer_opt, elem_opt):
    """thorough: every table of <= 2 rows with lengths 0..3 and every 3-row table with lengths 0..2.  quick: <= 2 rows
    with lengths 0..2 (all) and 0..3 (every third table), plus every 3-row table with lengths 0..1."""
    if tier == 'thorough':
        yield from tables(outer_opt, elem_opt, 2, 3)
        for t in tables(outer_opt, elem_opt, 3, 2):
            if len(t) == 3:
                yield t
        return
    for ti, t in enumerate(tables(outer_opt, elem_opt, 2, 3)):
        if ti % 3 == 0 or all(len(r) <= 2 for r in t):
            yield t
    for t in tables(outer_opt, elem_opt, 3, 1):
        if len(t) == 3:
            yield t


def enumerate_files(tier):
    thorough = tier == 'thorough'
    for shape, outer_opt, elem_opt in SHAPES:
        for ti, table in enumerate(file_tables(tier, outer_opt, elem_opt)):
            ent = entries_of(table)
            ne = sum(ent)
            starts = list(itertools.accumulate(ent))[:-1]          # entry positions where a row starts
            # v1: every split of the entries into <= 3 pages, PLAIN / dictionary alternating (both for 1-row tables)
            for cuts in splits(ne, 3):
                for use_dict in ((False, True) if (thorough or len(table) <= 1) else ((ti + len(cuts)) % 2 == 1,)):
                    yield (shape, outer_opt, elem_opt, table, cuts, 1, use_dict, None)
            # v2: pages start at row boundaries (format rule)
            for cuts in splits(ne, 3, allowed=starts):
                for use_dict in ((False, True) if (thorough or len(table) <= 1) else ((ti + len(cuts)) % 2 == 0,)):
                    yield (shape, outer_opt, elem_opt, table, cuts, 2, use_dict, None)
            # two row groups: split at every row boundary; first row group in 1..2 pages
            if thorough or ti % 2 == 0:
                for rs in range(1, len(table)):
                    n0 = sum(ent[:rs])
                    for version in (1, 2):
                        allowed = None if version == 1 else [s for s in starts if s < n0]
                        for cuts in splits(n0, 2, allowed=allowed):
                            yield (shape, outer_opt, elem_opt, table, cuts, version, (ti + rs) % 2 == 0, rs)


# ---- family "row cursor over many pages": 3 and 4 pages per chunk, unequal rows per page -------------------------
MP_VECTORS = [v for v in itertools.product((1, 2, 3), repeat=3)] + [v for v in itertools.product((1, 2), repeat=4)]


def multipage_tables(shape, outer_opt, elem_opt, tier):
    """(table, cuts at page starts) with 3 or 4 pages holding MP_VECTORS rows each.  Every page carries one 'null
    carrier' row (null row N, empty E, a row with a null element vn / n) at its first or last position - the same
    carrier in all pages or rotating from page to page - so that each page of each leaf has num_nulls > 0 where the
    schema allows (today's reader refuses v2 pages without nulls: known finding); the other rows cycle through
    v, vv, vnv|vvv so that rows, entries and values per page all differ."""
    cyc = ['v', 'vv', 'vnv' if elem_opt else 'vvv']
    carriers = (['N'] if outer_opt else []) + ['E'] + (['vn', 'n'] if (elem_opt and shape == 'list') else [])
    seen = set()
    for vi, vec in enumerate(MP_VECTORS):
        for c0 in range(len(carriers)):
            for rotate in (False, True):
                for pos in ('first', 'last'):
                    for phase in ((0, 1, 2) if tier == 'thorough' else ((vi + c0) % 3, (vi + c0 + 1) % 3)):
                        table, cuts, k = [], [], phase
                        for pi, r in enumerate(vec):
                            if pi:
                                cuts.append(sum(entries_of(table)))
                            rows = [cyc[(k + j) % 3] for j in range(r)]
                            k += r
                            rows[0 if pos == 'first' else r - 1] = carriers[(c0 + pi) % len(carriers)] if rotate else carriers[c0]
                            table.extend(rows)
                        key = (tuple(table), tuple(cuts))
                        if key not in seen:
                            seen.add(key)
                            yield key


EXTRA_RG = ('vv', 'E', 'v')         # rows of the additional single-page row group of the two-row-group variants


def enumerate_multipage(tier):
    thorough = tier == 'thorough'
    for shape, outer_opt, elem_opt in SHAPES:
        extra = tuple(r for r in EXTRA_RG)
        for ti, (table, cuts) in enumerate(multipage_tables(shape, outer_opt, elem_opt, tier)):
            if not outer_opt and not thorough and ti % 8:
                continue            # required outer collection: v2 reads fail today whatever the layout (known finding): a sample
            # one row group, DATA_PAGE_V2, dictionary values, pages at row starts
            yield (shape, outer_opt, elem_opt, table, cuts, 2, True, None)
            # two row groups: the multi-page chunk is the first / the second one
            if thorough or ti % 3 == 0:
                yield (shape, outer_opt, elem_opt, table + extra, cuts, 2, True, len(table))
                yield (shape, outer_opt, elem_opt, extra + table, (), 2, True, len(extra), cuts)
            # v1 with the same layout, and with every page boundary moved one entry INTO the row that starts there
            # (v1 pages may start inside a row; v2 pages may not)
            if thorough or ti % 4 == 1:
                yield (shape, outer_opt, elem_opt, table, cuts, 1, True, None)
                ne = sum(entries_of(table))
                inside = tuple(sorted(set(c + 1 for c in cuts if c + 1 < ne)))
                starts = set(itertools.accumulate(entries_of(table)))
                if inside and any(c not in starts for c in inside):
                    yield (shape, outer_opt, elem_opt, table, inside, 1, (ti // 4) % 2 == 0, None)


def risky(case):
    """Cases in which the reader may store beyond its arrays (known row-index defect): isolate in a forked child."""
    shape, outer_opt, elem_opt, table, cuts, version, use_dict, rg_split = case[:8]
    cuts2 = tuple(case[8]) if len(case) > 8 else ()
    if not cuts and not cuts2:
        return False
    t0 = table if rg_split is None else table[:rg_split]
    return any(k != 'row_start' for k in continuation_kinds(t0, cuts)) or \
        bool(cuts2 and any(k != 'row_start' for k in continuation_kinds(table[rg_split:], cuts2)))


def _in_fork(fn, *a):
    """Run fn(*a) in a forked child; -> its result, or (False, 'died ...') when the child is killed by a signal."""
    import pickle
    r, w = os.pipe()
    pid = os.fork()
    if pid == 0:
        code = 1
        try:
            os.close(r)
            try:
                res = fn(*a)
            except AssertionError as e:
                res = (None, "ENGINE: %s" % (e,))
            with os.fdopen(w, 'wb') as f:
                pickle.dump(res, f)
            code = 0
        finally:
            os._exit(code)
    os.close(w)
    with os.fdopen(r, 'rb') as f:
        blob = f.read()
    _, status = os.waitpid(pid, 0)
    if blob:
        try:
            return pickle.loads(blob)
        except Exception:
            pass
    if os.WIFSIGNALED(status):
        return False, "interpreter died with signal %d" % os.WTERMSIG(status)
    return False, "child exited with status %d without a result" % status


def resilient(func, items, isolate=lambda item: False):
    """[func(item) for item in items], evaluated in forked children so that a native crash is a RESULT, not the end of
    the check: items for which isolate(item) holds get a child of their own; the others share a child that streams its
    results back - when it dies, the item in flight is recorded as (False, 'interpreter died ...') and a fresh child
    continues behind it.  func returns (ok, what); an AssertionError inside func means an oracle problem -> (None, msg)."""
    import pickle

    def safe(item):
        try:
            return func(item)
        except AssertionError as e:
            return (None, "ENGINE: %s" % (e,))
        except BaseException as e:      # noqa - a contract function must not raise; report it as a failed case
            return (False, "raised %s: %s" % (type(e).__name__, str(e)[:160]))

    results = [None] * len(items)
    i = 0
    while i < len(items):
        if isolate(items[i]):
            results[i] = _in_fork(safe, items[i])
            i += 1
            continue
        j_end = i
        while j_end < len(items) and not isolate(items[j_end]):
            j_end += 1
        r, w = os.pipe()
        pid = os.fork()
        if pid == 0:
            code = 1
            try:
                os.close(r)
                with os.fdopen(w, 'wb') as f:
                    for j in range(i, j_end):
                        pickle.dump((j, safe(items[j])), f)
                        f.flush()
                code = 0
            finally:
                os._exit(code)
        os.close(w)
        last = i - 1
        with os.fdopen(r, 'rb') as f:
            while True:
                try:
                    j, res = pickle.load(f)
                except Exception:
                    break
                results[j] = res
                last = j
        _, status = os.waitpid(pid, 0)
        if last < j_end - 1:
            sig = os.WTERMSIG(status) if os.WIFSIGNALED(status) else 0
            results[last + 1] = (False, "interpreter died with signal %d (exit status %d)" % (sig, status))
            i = last + 2
        else:
            i = j_end
    return results


def _files_worker(args):
    batch, repo = args
    if repo not in sys.path:
        sys.path.insert(0, repo)
    import fastparquet
    res = resilient(lambda case: file_case(fastparquet, case), [c for _, c in batch], isolate=risky)
    return [(idx, ok, what) for (idx, _), (ok, what) in zip(batch, res)]


def file_snippet(case):
    inner = _file_snippet_inner(case)
    if not risky(case):
        return inner
    return ("# the read may store beyond its arrays: run it in a child process\n"
            "import os, subprocess, sys\nINNER = %r\n"
            "p = subprocess.run([sys.executable, '-c', INNER + \"\\nprint('VIOLATED=%%s' %% VIOLATED)\"], capture_output=True, timeout=120,\n"
            "                   env={**os.environ, 'PYTHONPATH': os.pathsep.join(x for x in sys.path if x)})\n"
            "print(p.stdout.decode(errors='replace')[-600:], 'exit code', p.returncode)\n"
            "VIOLATED = p.returncode != 0 or b'VIOLATED=False' not in p.stdout\n" % inner)


def _file_snippet_inner(case):
    data, rows = build_file(*case)
    return ("import base64, io\nimport fastparquet\n" + NORMALISE_SRC +
            "data = base64.b64decode(%r)\nexpected = %r\n" % (base64.b64encode(data).decode(), rows) +
            "try:\n    got = normalise(fastparquet.ParquetFile(io.BytesIO(data)).to_pandas()['c'])\n"
            "except Exception as e:\n    got = 'raised %s: %s' % (type(e).__name__, e)\n"
            "print('got     ', got)\nprint('expected', expected)\nVIOLATED = got != expected\n")


def kernel_snippet(shape, outer_opt, elem_opt, table, cuts, use_dict):
    return ("import sys\nsys.path.insert(0, %r)\nimport numpy as np\nimport fastparquet.cencoding as ce\n"
            "from runtime.c15_assembly import kernel_case\n"
            "ok, what = kernel_case(ce, np, %r, %r, %r, %r, %r, %r)\nprint(ok, what)\nVIOLATED = not ok\n"
            % (os.path.dirname(os.path.dirname(os.path.abspath(__file__))), shape, outer_opt, elem_opt,
               tuple(table), tuple(cuts), use_dict))


# ------------------------------------------------------------------------------------------------
# two nested columns whose leaves share the name `element` (every 3-level LIST has one) but differ in type
# ------------------------------------------------------------------------------------------------
G_TWO = "c15.two_lists"
TWO_ROWS = {"names": [["ann", "bob"], None, [], ["cy"], ["dee", "ann", "eve"]], "nums": [[1, 2], [3], None, [], [4, 5, 6]]}


def two_lists_cases():
    for order in (("names", "nums"), ("nums", "names")):
        for version in (1, 2):
            for use_dict in (False, True):
                if version == 2 and not use_dict:
                    continue        # nested PLAIN v2 pages: outside the layouts today's reader accepts (known C15 finding, group c15.files)
                yield order, version, use_dict


def build_two_lists(order, version, use_dict):
    from spec import pqwrite as W
    spec = {"names": W.ListSpec("names", W.ColumnSpec("element", "BYTE_ARRAY", converted="UTF8"), optional=True),
            "nums": W.ListSpec("nums", W.ColumnSpec("element", "INT64"), optional=True)}
    enc = ("RLE_DICTIONARY" if version == 2 else "PLAIN_DICTIONARY") if use_dict else "PLAIN"
    lay = {"*": W.ChunkLayout(pages=[W.PageLayout(version=version, encoding=enc)], dictionary="auto" if use_dict else None)}
    return W.encode_file([spec[c] for c in order], [{c: TWO_ROWS[c] for c in order}], lay)


def two_lists_case(repo, order, version, use_dict):
    import io
    if repo not in sys.path:
        sys.path.insert(0, repo)
    import fastparquet
    data = build_two_lists(order, version, use_dict)
    try:
        df = fastparquet.ParquetFile(io.BytesIO(data)).to_pandas()
        got = {c: [None if r is None else [x.item() if hasattr(x, "item") else x for x in r] for r in df[c]] for c in order}
    except Exception as e:
        return False, "read raised %s: %s" % (type(e).__name__, str(e)[:150])
    want = {c: TWO_ROWS[c] for c in order}
    if got != want:
        return False, "got %r, expected %r" % (got, want)
    return True, ""


def two_lists_snippet(order, version, use_dict):
    data = build_two_lists(order, version, use_dict)
    return ("import base64, io\nimport fastparquet\ndata = base64.b64decode(%r)\nexpected = %r\n" % (
        base64.b64encode(data).decode(), {c: TWO_ROWS[c] for c in order}) +
        "try:\n    df = fastparquet.ParquetFile(io.BytesIO(data)).to_pandas()\n"
        "    got = {c: [None if r is None else [x.item() if hasattr(x, 'item') else x for x in r] for r in df[c]] for c in expected}\n"
        "except Exception as e:\n    got = 'raised %s: %s' % (type(e).__name__, e)\n"
        "print('got     ', got)\nprint('expected', expected)\nVIOLATED = got != expected\n")


def run_bounded(ctx):
    from spec import pqwrite, assembly
    t0 = time.time()
    assembly.self_test()
    st = pqwrite.self_test()
    ctx.note("spec.pqwrite self-test: %s" % st)
    thorough = ctx.tier == 'thorough'
    nw = min(16, os.cpu_count() or 4)
    # ---- kernel group -----------------------------------------------------------------------
    ctx.bounded_group(G_KERNEL, rule=(
        "real cencoding._assemble_objects driven page by page as core.read_col does (v1): all tables of <= 3 rows "
        "(row = null | empty | 1..3 elements, each value or null where the schema allows)%s x all splits of the level "
        "sequence into <= 3 pages (also inside a row) x 6 shapes; PLAIN / dictionary dereference alternating"
        % (" and all 4-row tables with 0..2 elements per row" if thorough else "")))
    nparts = 8 if thorough else 2
    jobs = [(s, ctx.tier, REPO, part, nparts) for s in SHAPES for part in range(nparts)]
    with ProcessPoolExecutor(max_workers=nw) as ex:
        for (shape, oo, eo), res in ex.map(_kernel_worker, jobs):
            for tstr, cuts, use_dict, cont, mid, ok, what in res:
                feats = {'shape': shape, 'outer_optional': oo, 'elem_optional': eo, 'table': tstr, 'cuts': cuts,
                         'pages': (cuts.count(',') + 2) if cuts else 1, 'values': 'dict' if use_dict else 'plain',
                         'continuation': cont, 'whole_page_midchunk': mid}
                with Case(ctx, G_KERNEL, feats, contract=CONTRACT) as c:
                    if not ok:
                        c.snippet = kernel_snippet(shape, oo, eo, tstr.split('/'), [int(x) for x in cuts.split(',') if x], use_dict)
                        c.fail(what)
    t1 = time.time()
    # ---- whole files ------------------------------------------------------------------------
    ctx.bounded_group(G_FILES, rule=(
        "whole files from spec.pqwrite through ParquetFile.to_pandas(): 6 shapes x tables (%s) x (v1: every split of the "
        "level entries into <= 3 pages, also inside a row; v2: every split at row starts) x PLAIN/dictionary x 1..2 row "
        "groups (split at every row boundary, first group in 1..2 pages)  ||  ROW CURSOR OVER MANY PAGES: chunks of 3 "
        "pages holding (r1,r2,r3) in {1,2,3}^3 rows and of 4 pages holding {1,2}^4 rows (3..9 rows), DATA_PAGE_V2 with "
        "dictionary values and pages at row starts; every page carries a null carrier (null row / empty collection / row "
        "with a null element; same carrier in all pages or rotating; first or last row of the page) so that each leaf of "
        "each page has num_nulls > 0 on optional outer LIST / MAP (the layouts today's reader accepts), other rows cycle "
        "v, vv, vnv; 6 shapes (required outer: a sample, all inside a known finding); as one row group, as the first and "
        "as the second of two row groups (a third of the tables); a quarter also as v1 pages with the same boundaries and with every "
        "boundary moved one entry INTO the row starting there (v2 pages may not start inside a row)" % (
            "<= 2 rows: collection lengths 0..3; 3 rows: lengths 0..2" if thorough else
            "<= 2 rows: lengths 0..2 all and 0..3 every third; 3 rows: lengths 0..1")))
    cases = list(enumerate_files(ctx.tier)) + list(enumerate_multipage(ctx.tier))
    indexed = list(enumerate(cases))
    nb = nw * 4
    results = {}
    with ProcessPoolExecutor(max_workers=nw) as ex:
        for res in ex.map(_files_worker, [(indexed[k::nb], REPO) for k in range(nb) if indexed[k::nb]]):
            for idx, ok, what in res:
                results[idx] = (ok, what)
    for i, case in enumerate(cases):
        ok, what = results[i]
        if ok is None:
            ctx.engine_error(what)
            continue
        with Case(ctx, G_FILES, file_features(case), contract=CONTRACT) as c:
            if not ok:
                c.snippet = file_snippet(case)
                c.fail(what)
    # ---- two LIST columns with equally named leaves -------------------------------------------------
    ctx.bounded_group(G_TWO, rule=(
        "one file with TWO 3-level LIST columns whose leaves are both called `element` but differ in type (LIST<utf8> and LIST<int64>), in "
        "both column orders x (v1 PLAIN, v1 dictionary, v2 dictionary); rows: lists, null row, empty list: each column must come back with "
        "ITS OWN element type (a schema lookup keyed by the leaf name alone decodes one column with the other's converted type)"))
    for order, version, use_dict in two_lists_cases():
        ok, what = _in_fork(two_lists_case, REPO, order, version, use_dict)
        feats = {"order": "+".join(order), "page_version": version, "values": "dict" if use_dict else "plain"}
        with Case(ctx, G_TWO, feats, contract=CONTRACT) as c:
            if not ok:
                c.snippet = two_lists_snippet(order, version, use_dict)
                c.fail(what)
    ctx.note("c15: kernel %.1f s, %d files %.1f s" % (t1 - t0, len(cases), time.time() - t1))
