"""C13 (bounded): row-level filtering returns exactly the satisfying rows.

Contracts on the REAL `ParquetFile.to_pandas(filters=F, row_filter=True|mask)` and
`ParquetFile.count(filters=F, row_filter=True)`:

  c13.rows            got = to_pandas(filters=F, row_filter=True, columns=C):
                      * the rows of `got` are exactly the rows of the dataset satisfying F (oracle: the SOURCE
                        frame in plain python; flat list = AND, list of lists = OR of ANDs; conditions on partition
                        columns evaluated with the row's partition value), in original order;
                      * every requested column is aligned: got == full_read.iloc[those rows][C]
                        (C = all | key + others | key only | filter columns only | neither key nor filter columns);
                      * count(filters=F, row_filter=True) == len(got) == number of satisfying rows.
                      Null cells: a null never satisfies a positive comparison.  For the NEGATIVE operators
                      (!=, not in) on a null cell the statement does not say; the broad enumeration accepts both
                      readings there (satisfying rows under "null never satisfies" <= got <= satisfying rows under
                      "null != x is true"); the strict reading is checked by the small group c13.null_semantics.
  c13.mask            to_pandas(row_filter=mask, columns=C) == full_read[mask][C]; a mask whose length is not the
                      number of rows (of the row groups selected by `filters`) raises.
  c13.null_semantics  strict reading (the design's spec.filter_sat: null never satisfies) on a handful of
                      negative-operator atoms over columns with nulls.
  c13.mask_plumbing   canonical cases of the mask application inside page decoding: v2 pages (known-broken
                      families), several v1 pages per chunk and nulls before the first selected row (repaired in
                      /repo by e953da1; kept as regression cases).

The v2 page-decoding mask plumbing of the pinned tree is broken for whole families of (page layout, column kind,
mask) - see findings.  c13.rows / c13.mask therefore do not enumerate the alignment part of a case when some
(row group, output column, mask slice) lies in the conservative exclusion predicate `bad_plumbing` (the count part
is still evaluated); the families are represented by the canonical cases of c13.mask_plumbing instead.

Column chunks of SEVERAL data pages: the datasets flat3 / idx_dt / hive_pi (2 pages) and pages_v1 (5 pages for the
8-byte columns, 3 for text), pages_v1_tiny (one row per page; 3 pages for the categorical) and pages_v2 are written
with a small fastparquet.writer.MAX_PAGE_SIZE (set inside the recipe, restored afterwards).  v1 chunks of several
pages are enumerated in full: every filter program with row_filter=True and every mask, including masks built from
the REAL page boundaries (read off the page headers): first / last row of every page, all but the first / last
row of every page, even / odd pages only, everything but page 0, last page only, one row per page except page 1.
The feature `pages` records the largest page count of a chunk read through the mask path and whether some page
without a selected row precedes a page with one (':holes').
"""
import concurrent.futures as cf
import os
import random

import numpy as np
import pandas as pd

from runtime import ds_read as D
from runtime import c05_superset as M5
from runtime.harness import Case, tmpdir, import_fastparquet

G_ROWS, G_MASK, G_NULL, G_PLUMB = "c13.rows", "c13.mask", "c13.null_semantics", "c13.mask_plumbing"
G_RG = "c13.rowgroup_read"

DATASETS = ["flat1", "flat3", "flat4v2", "flat2v2", "hive0", "hive_pi", "hive_ps_pb", "hive_pt", "drill_pi_ps",
            "idx_dt", "one_row"] + list(D.PAGES)
# filter columns of the multi-page datasets in the quick tier (thorough: all)
QUICK_COLS = {"pages_v1": ["rid", "i", "f", "s", "c", "t", "n"], "pages_v2": ["rid", "i", "s", "t"],
              "pages_v1_tiny": ["rid", "i", "c", "s"]}
FOREIGN = ["nation.plain.parquet", "test.parquet", "split", "multi_rgs_pyarrow"]
ORDER_OPS = ("<", "<=", ">", ">=")

CONTRACT_ROWS = ("to_pandas(filters=F, row_filter=True, columns=C) has exactly the rows satisfying F (partition "
                 "conditions honoured; null never satisfies a positive comparison), in original order, every column "
                 "aligned with the full read; count(filters=F, row_filter=True) equals its length")
CONTRACT_MASK = "to_pandas(row_filter=mask, columns=C) == full read restricted to the masked rows; wrong length raises"
CONTRACT_RG = ("stand-alone per-row-group read (documented mode row_filter=[list of filters], assign=None): "
               "read_row_group_file(rg_i, C, None, index=False, row_filter=F) == pf[i].to_pandas(filters=F, row_filter=True, "
               "columns=C, index=False) for every row group i kept by filter_row_groups; with row_filter=False it equals "
               "pf[i].to_pandas(columns=C, index=False)")


# ---------------------------------------------------------------------------------------------
# view with page layout

def make_view(fp, root, name):
    calls = {}
    cur = [None]
    o1, o2 = fp.core.read_data_page, fp.core.read_data_page_v2

    pagerows = {}

    def w1(f, sh, ph, cmd, *a, **k):
        key = (cur[0], ".".join(cmd.path_in_schema))
        calls[key] = (1, calls.get(key, (1, 0))[1] + 1)
        pagerows.setdefault(key, []).append(int(ph.data_page_header.num_values))
        return o1(f, sh, ph, cmd, *a, **k)

    def w2(f, sh, se, dh, cmd, *a, **k):
        key = (cur[0], ".".join(cmd.path_in_schema))
        calls[key] = (2, calls.get(key, (2, 0))[1] + 1)
        pagerows.setdefault(key, []).append(int(dh.num_rows if dh.num_rows is not None else dh.num_values))
        return o2(f, sh, se, dh, cmd, *a, **k)
    view = M5._view(fp, root, name)
    fp.core.read_data_page, fp.core.read_data_page_v2 = w1, w2
    try:
        for j in range(view.nrg):
            cur[0] = j
            view.pf[j].to_pandas()
    finally:
        fp.core.read_data_page, fp.core.read_data_page_v2 = o1, o2
    view.layout = calls            # (rg, column) -> (page version, number of data pages)
    view.pagerows = pagerows       # (rg, column) -> rows of each data page, from the page headers (flat columns)
    full = view.full
    view.outcols = [c for c in full.columns]
    view.key = "rid" if view.ds.src is not None else None
    view.nullmask = {}
    for c in full.columns:
        view.nullmask[c] = np.asarray(pd.isna(full[c]))
    if view.ds.index_col:
        view.nullmask[view.ds.index_col] = np.asarray(pd.isna(full.index))
    if view.key:
        view.pos_of_key = {int(v): k for k, v in enumerate(full[view.key].values)}
    return view


def col_kind(view, c):
    s = view.full[c] if c in view.full.columns else view.full.index
    dt = s.dtype
    if isinstance(dt, pd.CategoricalDtype):
        return "cat"
    if isinstance(dt, pd.core.arrays.masked.BaseMaskedDtype):
        return "nullable"
    if dt.kind == "b":
        return "bool"
    if dt.kind == "O":
        return "object"
    return dt.kind


def k_nulls(nulls):
    return bool(nulls.any())


def bad_plumbing(view, j, c, m):
    """Conservative exclusion predicate: reading column c of row group j under the boolean slice m goes through
    a mask path of core.read_data_page_v2 that is known to be broken on the pinned tree.  (The v1 families -
    several pages per chunk, nulls before the first selected row - were repaired in /repo by e953da1 and are
    enumerated like every other case since.)"""
    n = len(m)
    s = int(m.sum())
    if s == 0 or s == n or c in view.partcols:
        return False                    # whole row group / skipped row group / path-derived column: no mask path
    ver, pages = view.layout.get((j, c), (1, 1))
    if ver != 2:
        return False
    if pages >= 2:
        return True
    kind = col_kind(view, c)
    lo = view.offsets[j]
    nulls = view.nullmask[c][lo:lo + n]
    return kind == "cat" or (kind == "nullable" and k_nulls(nulls))


def any_bad(view, cols, mask, rgs=None):
    cols = list(cols if cols is not None else view.outcols)
    if view.ds.index_col and view.ds.index_col not in cols:
        cols.append(view.ds.index_col)
    for j in (rgs if rgs is not None else range(view.nrg)):
        lo, hi = view.offsets[j], view.offsets[j + 1]
        for c in cols:
            if bad_plumbing(view, j, c, mask[lo:hi]):
                return True
    return False


def pages_feature(view, cols, mask, rgs=None):
    """Largest number of data pages of a chunk that is read through the mask path (row group partially selected,
    column not path-derived): '0' no chunk goes through the mask path, '1', '2', '3+';  followed by ':holes' when in
    such a chunk some page has no selected row while a later page of the chunk has one."""
    cols = list(cols if cols is not None else view.outcols)
    if view.ds.index_col and view.ds.index_col not in cols:
        cols.append(view.ds.index_col)
    best, holes = 0, False
    for j in (rgs if rgs is not None else range(view.nrg)):
        lo, hi = view.offsets[j], view.offsets[j + 1]
        m = mask[lo:hi]
        s = int(m.sum())
        if s == 0 or s == len(m):
            continue
        for c in cols:
            if c in view.partcols:
                continue
            sizes = view.pagerows.get((j, c)) or [len(m)]
            best = max(best, len(sizes))
            if sum(sizes) == len(m) and len(sizes) > 1:
                per = [int(x.sum()) for x in np.split(m, np.cumsum(sizes)[:-1])]
                seen = False
                for x in per[::-1]:
                    if x:
                        seen = True
                    elif seen:
                        holes = True
    return ("3+" if best >= 3 else str(best)) + (":holes" if holes else "")


def page_masks(view):
    """Masks built from the REAL page boundaries of up to two reference columns (the row-id column and the column
    with the most pages): rows kept in every page / no row kept in some pages."""
    n = len(view.full)
    out = []
    multi = {}
    for (j, c), sizes in view.pagerows.items():
        if c in view.full.columns and len(sizes) > 1 and sum(sizes) == view.rg_rows[j]:
            multi[c] = max(multi.get(c, 0), len(sizes))
    if not multi:
        return out
    refs = []
    if view.key in multi:
        refs.append(view.key)
    most = max(sorted(multi), key=lambda c: multi[c])
    if most not in refs and (not refs or multi[most] != multi[refs[0]] or True):
        refs.append(most)
    other = [c for c in sorted(multi) if c not in refs and multi[c] != multi[refs[0]]]
    refs += other[:1]
    for c in refs[:3]:
        page_of_row = np.full(n, -1)
        first = np.zeros(n, bool)
        last = np.zeros(n, bool)
        lastpage = np.zeros(n, bool)
        for j in range(view.nrg):
            sizes = view.pagerows.get((j, c)) or [view.rg_rows[j]]
            if sum(sizes) != view.rg_rows[j]:
                sizes = [view.rg_rows[j]]
            pos = view.offsets[j]
            for p, r in enumerate(sizes):
                if r:
                    page_of_row[pos:pos + r] = p
                    first[pos] = True
                    last[pos + r - 1] = True
                    if p == len(sizes) - 1:
                        lastpage[pos:pos + r] = True
                pos += r
        out += [("page_firsts@" + c, first), ("page_lasts@" + c, last), ("page_all_but_first_row@" + c, ~first),
                ("page_all_but_last_row@" + c, ~last), ("even_pages_only@" + c, page_of_row % 2 == 0),
                ("odd_pages_only@" + c, page_of_row % 2 == 1), ("not_page0@" + c, page_of_row != 0),
                ("last_page_only@" + c, lastpage), ("page_firsts_but_page1@" + c, first & (page_of_row != 1)),
                ("page1_whole+firsts@" + c, first | (page_of_row == 1))]
    return out


def expected_frame(view, pos, cols):
    e = view.full.iloc[pos]
    if cols is not None:
        e = e[[c for c in cols]]
    if isinstance(view.full.index, pd.RangeIndex):
        e = e.reset_index(drop=True)
    return e


# ---------------------------------------------------------------------------------------------
# regions of known defects (features only)

def region13(view, F, sat, satp):
    """-> (label, kept row mask or None).  The kept set is read off the library's own filter_row_groups (its
    soundness is C05's subject); everything else is computed from the source frame."""
    fpapi = __import__("fastparquet.api").api
    labels = []
    try:
        idx = fpapi.filter_row_groups(view.pf, F, as_idx=True)
    except Exception:
        return ("partlist_raises" if M5.part_list_raises(view, F) else "no"), None
    kept = np.isin(view.rg_of_row, idx)
    if (sat & ~kept).any():
        labels.append("pruned_sat")
    if view.partcols:
        satd = view.sat(F, drop_cols=view.partcols, null_neg=True)
        if (satd & ~satp & kept).any():
            labels.append("partdrop")
    for g in D.normalise(F):
        sofar = np.ones(len(sat), bool)
        for (col, op, val) in g:
            if col in view.partcols:
                continue
            k = col_kind(view, col)
            nm = view.nullmask[col]
            if k == "object" and op in ORDER_OPS and (nm & kept).any():
                labels.append("str_order_raises")
            bc = view.base[view.colmap.get(col, col)]
            if k == "nullable" and op in D.SCALAR_OPS:
                # a masked-integer comparison yields NA on a null cell; `and_part &= <BooleanArray>` is computed with
                # Kleene logic and written back into the numpy mask: it raises when an NA survives, i.e. when every
                # EARLIER atom of the group is true on that row
                if (nm & sofar & kept).any():
                    labels.append("int_na_raises")
                sofar = sofar & D.atom_sat(bc, op, val)
            else:
                try:
                    sofar = sofar & D.atom_sat(bc, op, val, null_neg=True)
                except TypeError:
                    pass
    return ("+".join(sorted(set(labels))) or "no"), kept


# ---------------------------------------------------------------------------------------------

def column_variant(view, F, k, tolerant):
    fcols = []
    for g in D.normalise(F):
        for a in g:
            if a[0] not in fcols and a[0] not in view.partcols and a[0] != view.ds.index_col:
                fcols.append(a[0])
    others = [c for c in view.outcols if c not in fcols and c != view.key and c not in view.partcols]
    v = k % 5
    if view.key is None:
        return (None, "all") if v % 2 == 0 or tolerant or not fcols else (fcols, "filter_only")
    if v == 0:
        return None, "all"
    if v == 1:
        return [view.key] + others[(k // 5) % max(1, len(others)):][:2], "key+others"
    if v == 2:
        return [view.key], "key"
    if v == 3:
        return (fcols if not tolerant else [view.key] + [c for c in fcols if c != view.key]), "filter_only"
    if others and not tolerant:
        return others[(k // 5) % len(others):][:2], "neither"
    return [view.key], "key"


def as_lists(F):
    """the same filter with every condition written as a list [column, op, value]"""
    if isinstance(F[0][0], str):
        return [list(a) for a in F]
    return [[list(a) for a in g] for g in F]


def check_rows(view, F, cols, sat, satp, kept, strict_null=False):
    """-> (what|None, aligned: bool)"""
    pf = view.pf
    tolerant = bool((sat != satp).any()) and not strict_null
    n = pf.count(filters=F, row_filter=True)
    lo_n, hi_n = int(sat.sum()), int(satp.sum() if tolerant else sat.sum())
    if not (lo_n <= int(n) <= hi_n):
        return "count(filters=F, row_filter=True)=%r, satisfying rows=%s" % (n, lo_n if lo_n == hi_n else (lo_n, hi_n)), False
    cands = [sat] + ([satp] if tolerant else [])
    rgs = sorted(set(view.rg_of_row[kept].tolist())) if kept is not None else None
    if any(any_bad(view, cols, m & kept if kept is not None else m, rgs) for m in cands):
        return None, False
    got = pf.to_pandas(filters=F, row_filter=True, columns=cols)
    if int(n) != len(got):
        return "count(filters=F, row_filter=True)=%r but to_pandas(..., row_filter=True) has %d rows" % (n, len(got)), True
    if view.key and view.key in got.columns:
        try:
            pos = [view.pos_of_key[int(v)] for v in got[view.key].values]
        except (KeyError, ValueError, TypeError):
            return "returned key column holds values that are not row ids of the dataset: %s" % (list(got[view.key].values[:8]),), True
        if pos != sorted(set(pos)):
            return "rows not in original order / duplicated: positions %s" % (pos[:12],), True
        ps = set(pos)
        want, wantp = set(np.flatnonzero(sat).tolist()), set(np.flatnonzero(satp if tolerant else sat).tolist())
        if not (want <= ps <= wantp):
            return "row set wrong: missing %s, unexpected %s (of %d satisfying)" % (
                sorted(want - ps)[:6], sorted(ps - wantp)[:6], len(want)), True
    else:
        pos = np.flatnonzero(sat).tolist()
    d = D.explain_diff(got, expected_frame(view, pos, cols), index_values=view.index_values_ok)
    if d:
        return "columns not aligned with the selected rows: " + d, True
    return None, True


def mask_patterns(view, seed):
    n = len(view.full)
    r = np.arange(n)
    out = []
    if n == 0:
        return out
    out.append(("all", np.ones(n, bool)))
    out.append(("none", np.zeros(n, bool)))
    out.append(("alt", r % 2 == 0))
    out.append(("third", r % 3 == 1))
    out.append(("first", r == 0))
    out.append(("last", r == n - 1))
    starts = np.zeros(n, bool)
    ends = np.zeros(n, bool)
    for j in range(view.nrg):
        if view.rg_rows[j]:
            starts[view.offsets[j]] = True
            ends[view.offsets[j + 1] - 1] = True
    out.append(("rg_starts", starts))
    out.append(("rg_ends", ends))
    out.append(("rg0_only", view.rg_of_row == 0))
    if view.nrg > 1:
        out.append(("not_rg0", view.rg_of_row != 0))
        out.append(("rg_last_only", view.rg_of_row == view.nrg - 1))
    out.append(("prefix", r < n // 2))
    out.append(("suffix", r >= n // 2))
    rnd = random.Random(seed)
    for dens in (0.3, 0.7):
        out.append(("random%.1f" % dens, np.array([rnd.random() < dens for _ in range(n)], dtype=bool)))
    out += page_masks(view)
    return out


def check_mask(view, mask, cols, filters=None, rgs=None):
    pf = view.pf
    kw = {"filters": filters} if filters else {}
    got = pf.to_pandas(row_filter=mask, columns=cols, **kw)
    if rgs is None:
        pos = np.flatnonzero(mask).tolist()
    else:
        base = np.concatenate([np.arange(view.offsets[j], view.offsets[j + 1]) for j in rgs]) if rgs else np.zeros(0, int)
        pos = base[mask].tolist()
    d = D.explain_diff(got, expected_frame(view, pos, cols), index_values=view.index_values_ok)
    if d:
        return "masked read differs from the full read restricted to the mask: " + d
    return None


# ---------------------------------------------------------------------------------------------
# snippets

def _snippet_rows(dsname, F, cols, strict_null):
    body = '''
import pandas as pd
from pandas import Timestamp
from numpy import nan
F = %r
COLS = %r
STRICT_NULL = %r
full = pf.to_pandas()
def atom(col, op, val, null_neg):
    col = COLMAP.get(col, col)
    s = base[col].astype(object)
    na = pd.isna(base[col]).values
    f = {"==": lambda v: v == val, "=": lambda v: v == val, "!=": lambda v: v != val, "<": lambda v: v < val,
         "<=": lambda v: v <= val, ">": lambda v: v > val, ">=": lambda v: v >= val,
         "in": lambda v: any(v == x for x in val), "not in": lambda v: not any(v == x for x in val)}[op]
    return np.array([(null_neg and op in ("!=", "not in")) if n else bool(f(v)) for v, n in zip(s.values, na)], dtype=bool)
PARTS = [c for c in ("pi", "ps", "pb", "pt") if src is not None and c in src.columns]
COLMAP = {"dir%%d" %% k: p for k, p in enumerate(PARTS)} if pf.file_scheme == "drill" else {}
base = src.iloc[full["rid"].values].reset_index(drop=True) if src is not None else full.reset_index(drop=True)
def sat(null_neg):
    groups = [F] if F and isinstance(F[0][0], str) else F
    out = np.zeros(len(base), dtype=bool)
    for g in groups:
        m = np.ones(len(base), dtype=bool)
        for a in g:
            m &= atom(*a, null_neg)
        out |= m
    return out
lo, hi = sat(False), sat(not STRICT_NULL)
got = pf.to_pandas(filters=F, row_filter=True, columns=COLS)
n = pf.count(filters=F, row_filter=True)
print("satisfying rows:", int(lo.sum()), "(upper reading: %%d)" %% int(hi.sum()), "returned:", len(got), "count:", n)
VIOLATED = not (int(lo.sum()) <= len(got) <= int(hi.sum())) or int(n) != len(got)
if not VIOLATED and "rid" in got.columns and src is not None:
    pos = {int(v): k for k, v in enumerate(full["rid"].values)}
    p = [pos.get(int(v), -1) for v in got["rid"].values]
    VIOLATED = p != sorted(set(p)) or not (set(np.flatnonzero(lo)) <= set(p) <= set(np.flatnonzero(hi)))
    if not VIOLATED:
        exp = full.iloc[p][list(got.columns)]
        for c in got.columns:
            a, b = got[c].astype(object).where(got[c].notna(), None).tolist(), exp[c].astype(object).where(exp[c].notna(), None).tolist()
            if a != b:
                print("column", c, "not aligned:", a[:8], "expected", b[:8]); VIOLATED = True
elif not VIOLATED and (lo == hi).all():
    exp = full[lo][list(got.columns)]
    for c in got.columns:
        a, b = got[c].astype(object).where(got[c].notna(), None).tolist(), exp[c].astype(object).where(exp[c].notna(), None).tolist()
        if a != b:
            print("column", c, "not aligned:", a[:8], "expected", b[:8]); VIOLATED = True
''' % (F, cols, strict_null)
    return D.make_snippet(dsname, body)


def _snippet_mask(dsname, mask, cols, filters, wrong_len):
    body = '''
import pandas as pd
MASK = np.array(%r, dtype=bool)
COLS = %r
FILTERS = %r
full = pf.to_pandas(filters=FILTERS) if FILTERS else pf.to_pandas()
kw = {"filters": FILTERS} if FILTERS else {}
if %r:
    try:
        pf.to_pandas(row_filter=MASK, columns=COLS, **kw)
        print("wrong-length mask accepted"); VIOLATED = True
    except ValueError as e:
        print("raises:", e)
else:
    got = pf.to_pandas(row_filter=MASK, columns=COLS, **kw)
    exp = full[MASK][list(got.columns)]
    VIOLATED = len(got) != len(exp)
    for c in got.columns:
        a, b = got[c].astype(object).where(got[c].notna(), None).tolist(), exp[c].astype(object).where(exp[c].notna(), None).tolist()
        if a != b:
            print("column", c, ":", a[:8], "expected", b[:8]); VIOLATED = True
''' % (mask.astype(int).tolist(), cols, filters, wrong_len)
    return D.make_snippet(dsname, body)


# ---------------------------------------------------------------------------------------------
# workers

def run_rows(args):
    root, name, tier, sel, seed = args
    fp = import_fastparquet()
    view = make_view(fp, root, name)
    cols = M5._filter_columns(view)
    if view.ds.foreign:
        cols = cols[:4]
    elif tier == "quick" and (QUICK_COLS.get(name) or M5.QUICK_COLS.get(name)):
        cols = [c for c in (QUICK_COLS.get(name) or M5.QUICK_COLS[name]) if c in cols]
    progs = M5.programs(view, cols, tier)
    stride = 2 if tier == "quick" else 1
    progs = progs[::stride][sel[0]::sel[1]]
    res = []
    for k, (shape, F, ft) in enumerate(progs):
        kinds = ft["kind"].split("+")
        opsx = ft["op"].replace(">=&<=", ">=+<=").replace("<|>", "<+>").split("+")
        if any(kd == "cat" and o in ORDER_OPS for kd, o in zip(kinds, opsx)) and len(kinds) == len(opsx):
            continue        # order comparison with an unordered categorical: undefined in pandas, outside the model
        if any(a[0] in view.full.columns and isinstance(view.full[a[0]].dtype, pd.CategoricalDtype)
               and a[0] not in view.partcols and a[1] in ORDER_OPS for g in D.normalise(F) for a in g):
            continue
        try:
            sat, satp = view.sat(F), view.sat(F, null_neg=True)
        except TypeError:
            continue
        label, kept = region13(view, F, sat, satp)
        tolerant = bool((sat != satp).any())
        ocols, vname = column_variant(view, F, k, tolerant)
        # how the conditions are WRITTEN is a dimension of its own: the grammar says 3-sequences, tuples and lists are both in
        # use (the project's tests, JSON / YAML loaded filters).  Every program is run with tuples; every flat list of >= 2
        # conditions (the shape whose meaning depends on recognising a condition) and every 4th other program also with lists.
        forms = [("tuples", F)]
        if shape in ("and2", "range") or k % 4 == 1:
            forms.append(("lists", as_lists(F)))
        for written, Fw in forms:
            feats = {"ds": view.ds.name, "shape": shape, "cols": vname, "null_sensitive": tolerant, "known_region": label,
                     "written": written}
            feats.update(ft)
            try:
                what, aligned = check_rows(view, Fw, ocols, sat, satp, kept)
            except Exception as e:
                what, aligned = "%s: %s" % (type(e).__name__, str(e)[:200]), True
            feats["aligned_checked"] = aligned
            feats["pages"] = pages_feature(view, ocols, sat & kept if kept is not None else sat)
            if not aligned and label != "no" and (tolerant or ("pruned_sat" in label and "partdrop" in label)):
                continue        # only a count could be evaluated and known regions with opposite effects on it (or the
                #                 interval reading) apply: uninformative
            res.append((G_ROWS, feats, what is None, what, len(view.full) > 0, ("rows", view.ds.name, Fw, ocols, False)))
    return res


def _snippet_rg(dsname, F, cols, j):
    body = '''
import pandas as pd
from pandas import Timestamp
from numpy import nan
F = %r
COLS = %r
J = %r
rg = pf.row_groups[J]
exp = pf[J].to_pandas(filters=F, row_filter=True, columns=COLS, index=False) if F else pf[J].to_pandas(columns=COLS, index=False)
got = pf.read_row_group_file(rg, COLS, None, index=False, row_filter=F)
print("row group", J, "rows:", rg.num_rows, "stand-alone read:", len(got), "rows; to_pandas on that row group:", len(exp), "rows")
VIOLATED = len(got) != len(exp)
if not VIOLATED:
    for c in COLS:
        a, b = got[c].astype(object).where(got[c].notna(), None).tolist(), exp[c].astype(object).where(exp[c].notna(), None).tolist()
        if a != b:
            print("column", c, ":", a[:8], "expected", b[:8]); VIOLATED = True
''' % (F, cols, j)
    return D.make_snippet(dsname, body)


def run_rowgroups(args):
    """c13.rowgroup_read: the stand-alone branch of read_row_group_file against to_pandas on the one-row-group view.  Both go
    through _column_filter / the same mask plumbing, so the known regions of c13.rows cancel out; row groups dropped by
    filter_row_groups (to_pandas would not read them at all) and datasets with v2 pages (known-broken mask plumbing whose
    symptom can be uninitialised memory) are not enumerated; a case where to_pandas itself raises is c13.rows' subject."""
    root, name, tier, sel, seed = args
    fp = import_fastparquet()
    fpapi = __import__("fastparquet.api").api
    view = make_view(fp, root, name)
    if any(v[0] == 2 for v in view.layout.values()):
        return []
    cols = M5._filter_columns(view)
    if view.ds.foreign:
        cols = cols[:4]
    elif tier == "quick" and (QUICK_COLS.get(name) or M5.QUICK_COLS.get(name)):
        cols = [c for c in (QUICK_COLS.get(name) or M5.QUICK_COLS[name]) if c in cols]
    data_cols = [c for c in view.outcols if c not in view.partcols]
    pf = view.pf
    res = []

    def compare(F, ocols, j, feats):
        try:
            exp = pf[j].to_pandas(filters=F, row_filter=True, columns=ocols, index=False) if F else pf[j].to_pandas(columns=ocols, index=False)
        except Exception:
            return
        try:
            got = pf.read_row_group_file(pf.row_groups[j], ocols, None, index=False, row_filter=F)
            what = None
            if len(got) != len(exp):
                what = "stand-alone read of row group %d (%d rows) returns %d rows, to_pandas(filters=F, row_filter=True) on that row group %d" % (
                    j, pf.row_groups[j].num_rows, len(got), len(exp))
            else:
                d = D.explain_diff(got, exp, index_values=True)
                what = ("stand-alone read of row group %d differs from to_pandas on that row group: " % j + d) if d else None
            n, m = pf.row_groups[j].num_rows, len(exp)
            feats = dict(feats, selected="none" if m == 0 else "all" if m == n else "some")
        except Exception as e:
            what = "%s: %s" % (type(e).__name__, str(e)[:200])
            feats = dict(feats, selected="?")
        res.append((G_RG, feats, what is None, what, len(view.full) > 0, ("rg", view.ds.name, F, ocols, j)))
    for j in range(len(pf.row_groups)):
        for ocols, vname in ((data_cols[:4], "first4"), (data_cols[-2:], "last2")):
            compare(False, ocols, j, {"ds": view.ds.name, "shape": "unfiltered", "cols": vname, "written": "-"})
    progs = M5.programs(view, cols, tier)[::(12 if tier == "quick" else 3)]
    for k, (shape, F, ft) in enumerate(progs):
        if any(a[0] in view.full.columns and isinstance(view.full[a[0]].dtype, pd.CategoricalDtype)
               and a[0] not in view.partcols and a[1] in ORDER_OPS for g in D.normalise(F) for a in g):
            continue
        try:
            idx = sorted(set(int(i) for i in fpapi.filter_row_groups(pf, F, as_idx=True)))
        except Exception:
            continue
        fcols = [c for c in dict.fromkeys(a[0] for g in D.normalise(F) for a in g) if c in data_cols]
        key = [view.key] if view.key else data_cols[:1]
        others = [c for c in data_cols if c not in fcols and c not in key]
        ocols, vname = [(key + fcols, "key+filter"), (key + others[k % max(1, len(others)):][:2], "key+others"), (fcols or key, "filter_only")][k % 3]
        ocols = list(dict.fromkeys(ocols))
        written, Fw = ("lists", as_lists(F)) if k % 2 else ("tuples", F)
        for j in idx:
            feats = {"ds": view.ds.name, "shape": shape, "cols": vname, "written": written}
            feats.update(ft)
            compare(Fw, ocols, j, feats)
    return res


def run_masks(args):
    root, name, tier, sel, seed = args
    fp = import_fastparquet()
    view = make_view(fp, root, name)
    res = []
    n = len(view.full)
    others = [c for c in view.outcols if c != view.key and c not in view.partcols]
    variants = [(None, "all")]
    if view.key:
        variants.append(([view.key], "key"))
    for k in range(0, len(others), 2):
        variants.append((others[k:k + 2], "+".join(col_kind(view, c) for c in others[k:k + 2])))
    if view.partcols:
        variants.append(([view.partcols[0]] + others[:1], "partition+" + (col_kind(view, others[0]) if others else "")))
    for mname, mask in mask_patterns(view, seed):
        for cols, vname in variants:
            if any_bad(view, cols, mask):
                continue
            feats = {"ds": view.ds.name, "mask": mname, "cols": vname, "case": "select",
                     "pages": pages_feature(view, cols, mask)}
            try:
                what = check_mask(view, mask, cols)
            except Exception as e:
                what = "%s: %s" % (type(e).__name__, str(e)[:200])
            res.append((G_MASK, feats, what is None, what, n > 0, ("mask", view.ds.name, mask, cols, None, False)))
    # mask over the rows of the row groups selected by `filters`
    if view.nrg > 1 and view.ds.src is not None:
        fpapi = fp.api
        for fl in ([("rid", ">=", int(view.base["rid"].iloc[view.offsets[view.nrg - 1]:].min()))],
                   [("rid", "<=", int(view.base["rid"].iloc[:view.offsets[1]].max()))]):
            rgs = fpapi.filter_row_groups(view.pf, fl, as_idx=True)
            tot = int(sum(view.rg_rows[j] for j in rgs))
            if tot == 0 or tot == n:
                continue
            for mname, m in (("alt", np.arange(tot) % 2 == 0), ("all", np.ones(tot, bool)), ("last", np.arange(tot) == tot - 1)):
                full_m = np.zeros(n, bool)
                basepos = np.concatenate([np.arange(view.offsets[j], view.offsets[j + 1]) for j in rgs])
                full_m[basepos[m]] = True
                if any_bad(view, [view.key], full_m):
                    continue
                feats = {"ds": view.ds.name, "mask": mname, "cols": "key", "case": "select_with_filters"}
                try:
                    what = check_mask(view, m, [view.key], filters=fl, rgs=rgs)
                except Exception as e:
                    what = "%s: %s" % (type(e).__name__, str(e)[:200])
                res.append((G_MASK, feats, what is None, what, True, ("mask", view.ds.name, m, [view.key], fl, False)))
    # wrong length must raise
    if n > 0:
        for wl, m in (("len-1", np.ones(n - 1, bool)), ("len+1", np.ones(n + 1, bool)), ("len0", np.zeros(0, bool)),
                      ("len+1_same_sum", np.concatenate([np.arange(n) % 2 == 0, [False]]))):
            if wl == "len0" and n == 0:
                continue
            feats = {"ds": view.ds.name, "mask": wl, "cols": "all", "case": "wrong_length"}
            try:
                view.pf.to_pandas(row_filter=m)
                what = "mask of length %d accepted for %d rows" % (len(m), n)
            except ValueError:
                what = None
            except Exception as e:
                what = "wrong-length mask: %s instead of ValueError: %s" % (type(e).__name__, str(e)[:120])
            res.append((G_MASK, feats, what is None, what, True, ("mask", view.ds.name, m, None, None, True)))
    return res


NULL_CASES = [
    # (dataset, F): negative operator on a column with nulls, constants strictly inside every chunk's range
    ("flat1", [("f", "!=", 1.5)]), ("flat1", [("s", "!=", "c2")]), ("flat1", [("s", "not in", ["c2", "d0"])]),
    ("flat1", [("n", "not in", [1])]), ("flat1", [("f", "not in", [1.5, 2.0])]),
    ("hive0", [("f", "!=", 1.5)]), ("hive0", [("s", "!=", "c2")]), ("hive0", [("n", "not in", [1])]),
    ("hive0", [[("s", "!=", "c2")], [("rid", "<", 0)]]),
    ("hive_pi", [("s", "!=", "c2"), ("pi", "==", 1)]),
]

PLUMB_CASES = [
    # (dataset, column, mask name, family) - every case fails deterministically on the pinned tree (an exception, or
    # values read from the wrong rows / left None in an object column; cases whose symptom is uninitialised numeric
    # memory are not used)
    ("flat2v2", "c", "alt", "v2_categorical"), ("flat4v2", "c", "third", "v2_categorical"), ("hive_pt", "c", "alt", "v2_categorical"),
    ("flat2v2", "n", "alt", "v2_nullable_with_nulls"), ("flat2v2", "an", "alt", "v2_nullable_with_nulls"),
    ("hive_pt", "n", "third", "v2_nullable_with_nulls"),
    ("flat4v2", "rid", "alt", "v2_multipage"), ("flat4v2", "t", "third", "v2_multipage"), ("flat4v2", "f", "alt", "v2_multipage"),
    ("pages_v2", "rid", "page_firsts@rid", "v2_multipage"), ("pages_v2", "t", "even_pages_only@rid", "v2_multipage"),
    ("pages_v2", "s", "page_all_but_first_row@s", "v2_multipage"), ("pages_v2", "i", "last_page_only@rid", "v2_multipage"),
    ("flat3", "s", "alt", "v1_multipage_nulls_shift_offset"), ("flat3", "f", "alt", "v1_multipage_nulls_shift_offset"),
    ("flat3", "n", "alt", "v1_multipage_nulls_shift_offset"), ("idx_dt", "s", "alt", "v1_multipage_nulls_shift_offset"),
    ("flat3", "s", "rg0_rows_10_11", "v1_page_without_selection"),
    ("flat1", "s", "last", "v1_nulls_before_first_selected"), ("hive0", "s", "rg_ends", "v1_nulls_before_first_selected"),
]


def _plumb_mask(view, col, mname):
    n = len(view.full)
    r = np.arange(n)
    if mname == "alt":
        return r % 2 == 0
    if mname == "third":
        return r % 3 == 1
    if mname == "last":
        return r == n - 1
    if mname == "rg_ends":
        m = np.zeros(n, bool)
        for j in range(view.nrg):
            m[view.offsets[j + 1] - 1] = True
        return m
    if mname == "rg0_rows_10_11":
        return (r == 10) | (r == 11)
    if "@" in mname:
        return dict(page_masks(view))[mname]
    raise ValueError(mname)


def run_special(args):
    root, tier, seed = args
    fp = import_fastparquet()
    res = []
    views = {}

    def V(name):
        if name not in views:
            views[name] = make_view(fp, root, name)
        return views[name]
    for name, F in NULL_CASES:
        view = V(name)
        sat, satp = view.sat(F), view.sat(F, null_neg=True)
        label, kept = region13(view, F, sat, satp)
        feats = {"ds": name, "op": "+".join(a[1] for g in D.normalise(F) for a in g),
                 "col": "+".join(a[0] for g in D.normalise(F) for a in g), "reading": "null never satisfies",
                 "null_rows_decide": bool((sat != satp).any()), "known_region": label}
        try:
            what, _ = check_rows(view, F, [view.key], sat, satp, kept, strict_null=True)
        except Exception as e:
            what = "%s: %s" % (type(e).__name__, str(e)[:200])
        res.append((G_NULL, feats, what is None, what, True, ("rows", name, F, [view.key], True)))
    for name, col, mname, family in PLUMB_CASES:
        view = V(name)
        mask = _plumb_mask(view, col, mname)
        feats = {"ds": name, "col": col, "kind": col_kind(view, col), "mask": mname, "family": family,
                 "excluded_by_bad_plumbing": bool(any_bad(view, [col], mask))}
        try:
            what = check_mask(view, mask, [col])
        except Exception as e:
            what = "%s: %s" % (type(e).__name__, str(e)[:200])
        res.append((G_PLUMB, feats, what is None, what, True, ("mask", name, mask, [col], None, False)))
    return res


def _call_task(t):
    fn, a = t
    return fn(a)


def run_bounded(ctx):
    fp = import_fastparquet()
    ctx.bounded_group(G_ROWS, rule=(
        "datasets %s + foreign %s x every %s filter program of the C05 grammar (atoms: all operators x constants at / "
        "around chunk bounds, outside, other comparable type, in/not-in lists incl. empty; AND pairs, OR pairs, "
        "OR-of-AND, nested group, ranges), conditions written as tuples, and for every flat AND list / range and every 4th "
        "other program also as lists [column, op, value], x output columns cycling through {all, key+2 others, key, filter columns "
        "only, neither key nor filter columns}. Order comparisons on an unordered categorical are not enumerated "
        "(undefined in pandas). The alignment part is not enumerated when bad_plumbing holds (count part still is: "
        "feature aligned_checked; such a case is dropped when it is also null-sensitive and inside a known region). distinct = (dataset, shape, columns, operators, constant classes, column "
        "variant, written form); nontrivial = dataset has rows." % (DATASETS, FOREIGN, "2nd" if ctx.tier == "quick" else "")))
    ctx.bounded_group(G_MASK, rule=(
        "same datasets x masks {all, none, alternate, every third, first row, last row, first/last row of every row "
        "group, row group 0 only, all but row group 0, last row group only, prefix half, suffix half, 2 seeded "
        "random densities; for datasets with multi-page chunks 10 masks per reference column (<= 3: row id, most pages, "
        "another page count) built from the real page boundaries: first/last row of every page, all but first/last row "
        "of every page, even/odd pages only, not page 0, last page only, page firsts except page 1, page 1 whole + "
        "firsts} x column sets {all, key, pairs of columns, partition+data}; masks over the row groups "
        "selected by a filter; 4 wrong lengths (must raise ValueError). Cases in bad_plumbing are not enumerated."))
    ctx.bounded_group(G_RG, rule=(
        "same datasets without v2 pages x every row group: unfiltered stand-alone read (2 column sets); every %s filter program "
        "(conditions written alternately as tuples / lists) x every row group kept by filter_row_groups x column sets cycling "
        "through {key + filter columns, key + 2 others, filter columns only}; reference = to_pandas on the one-row-group view "
        "pf[i] (cases where that raises are not enumerated). distinct = (dataset, shape, columns, operators, constant classes, "
        "column variant, written form, none/some/all rows selected)." % ("12th" if ctx.tier == "quick" else "3rd")))
    ctx.bounded_group(G_NULL, rule="%d fixed (dataset, negative-operator atom on a column with nulls) cases, strict reading" % len(NULL_CASES))
    ctx.bounded_group(G_PLUMB, rule="%d fixed canonical (dataset, column, mask) cases, one or more per broken mask-plumbing family" % len(PLUMB_CASES))
    with tmpdir("verif-c13-") as root:
        D.build_all(fp, root, list(DATASETS))
        tasks = []
        for n in DATASETS:
            split = 1 if n == "one_row" else 4
            for k in range(split):
                tasks.append((run_rows, (root, n, ctx.tier, (k, split), ctx.seed)))
        for f in FOREIGN:
            split = 2 if f in ("split", "test.parquet") else 1
            for k in range(split):
                tasks.append((run_rows, (root, "foreign:" + f, ctx.tier, (k, split), ctx.seed)))
        for n in DATASETS + ["foreign:" + f for f in FOREIGN]:
            tasks.append((run_masks, (root, n, ctx.tier, None, ctx.seed)))
        for n in DATASETS + ["foreign:" + f for f in FOREIGN]:
            tasks.append((run_rowgroups, (root, n, ctx.tier, None, ctx.seed)))
        tasks.append((run_special, (root, ctx.tier, ctx.seed)))
        from runtime.harness import robust_map, WorkerDied
        results = robust_map(_call_task, tasks, min(16, os.cpu_count() or 4))
        for k, r in enumerate(results):
            if isinstance(r, WorkerDied):      # the real library killed the process: a failing case, not a checker crash
                results[k] = [(G_ROWS, {"ds": str(tasks[k][1][1]), "kind": "process died", "task": tasks[k][0].__name__}, False, r.what(), True, None)]
    contracts = {G_ROWS: CONTRACT_ROWS, G_MASK: CONTRACT_MASK, G_NULL: CONTRACT_ROWS + " [strict: null never satisfies != / not in]",
                 G_PLUMB: CONTRACT_MASK, G_RG: CONTRACT_RG}
    for res in results:
        for group, feats, ok, what, nontrivial, rp in res:
            snip = None
            if not ok and rp is not None:
                snip = _snippet_rows(rp[1], rp[2], rp[3], rp[4]) if rp[0] == "rows" else _snippet_rg(rp[1], rp[2], rp[3], rp[4]) if rp[0] == "rg" \
                    else _snippet_mask(rp[1], rp[2], rp[3], rp[4], rp[5])
            with Case(ctx, group, feats, snippet=snip, nontrivial=nontrivial, contract=contracts[group]) as c:
                if not ok:
                    c.fail(what)
