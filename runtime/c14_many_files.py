"""C14 (bounded): opening or merging many files yields their concatenation.

Groups
  c14.concat  1..4 single files / hive sub-datasets with the same columns and dtypes (independent category
              sets, row counts incl. 0, codecs) in flat / hive (1 and 2 levels) / drill directory shapes, root given
              or inferred, opened via ParquetFile([paths]) (1-2 files: one code path, >= 3: footer-gathering path),
              reversed list, list of ParquetFile objects, verify=True, ParquetFile(directory) without _metadata,
              glob, writer.merge(paths) (+ re-opening the directory afterwards):
              rows == concatenation in the given order, count(), partition columns from directory names,
              right categorical label in every row.
              Label COUNTS that differ between the files (category configurations `nested_*`): label sets that are
              prefixes of one another with 7/40/90/300, 90/200/200/300 or 200/90/40/7 labels - the counts straddle the
              int8 (127) code width and their decimal strings sort differently from their values - rows using high
              codes; additionally the dataset must ANNOUNCE enough categories: max count of the files holding rows <=
              pf.categories['c'] <= max count of all files, and a categorical column read has no more labels than
              announced.  (Files whose dictionaries are not prefixes of the dictionary read last: known finding,
              feature dictionary_conflict.)
  c14.fetch   footer-gathering path: one file's footer length swept through int(1.4 * H0) - 12 .. + 12 around the size of the
              first tail fetch (k in {3, 4} files, padded file second / last): the dataset opens and reads back as the concatenation.
  c14.append_cats  append histories whose categorical label count grows across the int8 / int16 code widths: reads back after every append.
  c14.big_footer   a data file whose footer is 65536 +- 16 bytes long (and footers grown into that range by in-place updates) opens and reads.
  c14.order   footer-gathering path with the files listed in a non-sorted order (reversed / rotated): rows, row-group sizes, file
              paths and per-row-group statistics are those of the files read alone, in the given order.
  c14.verify  files whose schemas differ (dtype / extra column / renamed column / column order / only the logical or
              converted-type annotation or the repetition of one column: tz-aware vs naive, unit, str vs bytes, ...) must be rejected by
              ParquetFile(paths, verify=True), ParquetFile(dir, verify=True) and merge(paths) (verify_schema=True).

Oracle: the frames that were written (plain pandas) and the paths they were written to; the expected base directory
is the longest common directory prefix (or the given root), computed here on path components.
"""
import concurrent.futures
import inspect
import json
import os
import subprocess
import sys

from runtime.harness import Case, import_fastparquet

# >>> SNIPPET-CORE
import glob as _glob
import os as _os
import shutil as _shutil
import tempfile as _tempfile

import numpy as np
import pandas as pd

ROWS = {"mixed": [3, 0, 2, 5], "zero_first": [0, 4, 1, 2], "zero_last": [2, 3, 1, 0], "ones": [1, 1, 1, 1],
        "big": [40, 7, 0, 33], "all_zero": [0, 0, 0, 0]}
CODECS = [None, "GZIP", "SNAPPY", "ZSTD", "LZ4"]
HIVE1 = [1, 2, 2, 10]
FLATNUM = [2, 10, 9, 100]       # part.<n>.parquet: the given order differs from the lexicographic order AND from its reverse
LEV_A = {"hive2": [1, 1, 2, 2], "drill": ["u", "u", "w", "w"]}
LEV_B = ["x", "y", "x", "y"]


def categories_for(mode, i):
    if mode == "same":
        return ["a", "b", "c"]
    if mode == "disjoint":
        return [f"L{i}a", f"L{i}b", f"L{i}c"]
    if mode == "permuted":
        base = ["a", "b", "c"]
        return base[i % 3:] + base[:i % 3] if i % 3 else base
    if mode == "prefix_growing":
        return ["a", "b", "c", "d", "e", "f"][:2 + i]
    if mode in NESTED:
        return ["L%03d" % j for j in range(NESTED[mode][i])]
    raise KeyError(mode)


# label COUNTS per element; the label sets are prefixes of one another.  The counts straddle the int8 code width
# (127) and their decimal strings sort differently from their values ('90' > '300' > '200', '7' > '40').
NESTED = {"nested_7_40_90_300": [7, 40, 90, 300], "nested_90_200_200_300": [90, 200, 200, 300],
          "nested_200_90_40_7": [200, 90, 40, 7]}


def code_of(mode, i, q, ncat):
    """the category code element_frame() gives row q of element i (nested modes: spread over high codes as well)"""
    if mode in NESTED:
        return (q * 37 + i + (ncat - 1 if q == 0 else 0)) % ncat
    return (q + i) % ncat


def element_frame(spec, i):
    n = ROWS[spec["rows"]][i]
    cats = categories_for(spec["cats"], i)
    j = np.arange(n)
    f = (j * 1.5 - 2 + i).astype("float64")
    f[j % 3 == 1] = np.nan
    df = pd.DataFrame({
        "x": (j + 1000 * (i + 1)).astype("int64"),
        "f": f,
        "s": pd.Series([None if q % 4 == 3 else f"e{i}r{q}é" for q in range(n)], dtype="str"),
        "c": pd.Categorical([cats[code_of(spec["cats"], i, q, len(cats))] for q in range(n)], categories=cats),
    })
    if spec["shape"] == "subds":
        df["p"] = (j % 2 + 1).astype("int64")
    return df


def element_path(spec, root, i):
    sh = spec["shape"]
    if sh == "flat":
        return _os.path.join(root, f"f{i}.parquet")
    if sh == "flatnum":
        return _os.path.join(root, f"part.{FLATNUM[i]}.parquet")
    if sh == "hive1":
        return _os.path.join(root, f"k={HIVE1[i]}", f"p{i}.parquet")
    if sh == "hive2":
        return _os.path.join(root, f"a={LEV_A['hive2'][i]}", f"b={LEV_B[i]}", f"p{i}.parquet")
    if sh == "drill":
        return _os.path.join(root, LEV_A["drill"][i], LEV_B[i], f"p{i}.parquet")
    if sh == "subds":
        return _os.path.join(root, f"sub{i}")
    raise KeyError(sh)


def common_dir(paths):
    parts = [p.split("/") for p in paths]
    base = parts[0][:-1]
    for p in parts:
        j = 0
        while j < len(base) and j < len(p) - 1 and base[j] == p[j]:
            j += 1
        base = base[:j]
    return "/".join(base)


def text_read_as(r, t):
    """the partition value r read back for directory text t: the text itself or a typed reading of it"""
    if isinstance(r, str):
        return r == t
    if isinstance(r, (bool, np.bool_)):
        return t == str(bool(r))
    try:
        if isinstance(r, (int, np.integer)):
            return int(t) == int(r)
        if isinstance(r, (float, np.floating)):
            return float(t) == float(r)
        return pd.Timestamp(t) == pd.Timestamp(r)
    except (ValueError, TypeError):
        return False


def cell_eq(a, b):
    na = a is None or a is pd.NA or (isinstance(a, (float, np.floating)) and a != a)
    nb = b is None or b is pd.NA or (isinstance(b, (float, np.floating)) and b != b)
    if na or nb:
        return na and nb
    return a == b


def build_dataset(fastparquet, spec, root):
    """write the k elements; -> (given paths, units) ; unit = (element index, physical file path, frame of its rows)"""
    given, units = [], []
    for i in range(spec["k"]):
        df = element_frame(spec, i)
        p = element_path(spec, root, i)
        codec = CODECS[(i + spec["codec_off"]) % len(CODECS)]
        if spec["shape"] == "subds":
            fastparquet.write(p, df, file_scheme="hive", partition_on=["p"], compression=codec, write_index=False)
            for pv in sorted(set(df["p"])):
                units.append((i, _os.path.join(p, f"p={pv}", "part.0.parquet"), df[df["p"] == pv].drop(columns=["p"])))
        else:
            _os.makedirs(_os.path.dirname(p), exist_ok=True)
            fastparquet.write(p, df, compression=codec, write_index=False)
            units.append((i, p, df))
        given.append(p)
    return given, units


def open_dataset(fastparquet, spec, root, given):
    from fastparquet import ParquetFile
    from fastparquet.writer import merge
    kw = {"root": root} if spec["root"] == "given" else {}
    mode = spec["open"]
    if mode == "list":
        return ParquetFile(list(given), **kw), list(range(len(given)))
    if mode == "list_rev":
        return ParquetFile(list(given)[::-1], **kw), list(range(len(given)))[::-1]
    if mode == "list_verify":
        return ParquetFile(list(given), verify=True, **kw), list(range(len(given)))
    if mode == "list_pf":
        return ParquetFile([ParquetFile(p) for p in given], **kw), list(range(len(given)))
    if mode == "dir":
        return ParquetFile(root), None
    if mode == "glob":
        depth = {"flat": 0, "flatnum": 0, "hive1": 1, "hive2": 2, "drill": 2, "subds": 2}[spec["shape"]]
        return ParquetFile("/".join([root] + ["*"] * depth + ["*.parquet"]), **kw), None
    if mode == "merge":
        return merge(list(given), **kw), list(range(len(given)))
    if mode == "merge_reopen":
        merge(list(given), **kw)
        base = root if spec["root"] == "given" else common_dir(given)
        return ParquetFile(base), list(range(len(given)))
    raise KeyError(mode)


def expected_base(spec, root, given):
    """directory below which path components are partition levels (None: inferred from the files found).
    A given path's last component is its file name (also when the element is a dataset directory)."""
    mode = spec["open"]
    if spec["root"] == "given" or mode == "dir":
        return root
    if mode == "glob":
        return None
    return common_dir(given)


def check_many(fastparquet, spec):
    d = _tempfile.mkdtemp(prefix="verif-c14-")
    try:
        root = _os.path.join(d, "ds")
        _os.makedirs(root)
        given, units = build_dataset(fastparquet, spec, root)
        try:
            pf, order = open_dataset(fastparquet, spec, root, given)
        except ValueError:
            if spec["open"] in ("dir", "glob") and not units:
                return None     # a directory tree without a single data file: nothing to open, refusing is fine
            raise
        out = pf.to_pandas()
        base = expected_base(spec, root, given)
        if base is None:
            base = common_dir([u[1] for u in units])
        total = sum(len(u[2]) for u in units)
        # ---- count / multiset ------------------------------------------------------------
        if pf.count() != total:
            return f"count() = {pf.count()}, files hold {total} rows"
        if len(out) != total:
            return f"to_pandas() has {len(out)} rows, files hold {total}"
        owner = {}
        for ui, (i, path, df) in enumerate(units):
            for pos, x in enumerate(df["x"]):
                owner[int(x)] = (ui, pos)
        xs = [int(v) for v in out["x"]]
        if sorted(xs) != sorted(owner):
            return f"rows differ from the files' rows: read x={xs[:8]}..., expected ids {sorted(owner)[:8]}..."
        # ---- order: every file's rows contiguous and in order; elements in the given order ----------
        seen_units, last = [], None
        for x in xs:
            ui, pos = owner[x]
            if last is None or ui != last[0]:
                if ui in seen_units:
                    return f"rows of file {units[ui][1][len(root):]} are not contiguous"
                if pos != 0:
                    return f"rows of file {units[ui][1][len(root):]} start at its row {pos}"
                seen_units.append(ui)
            elif pos != last[1] + 1:
                return f"rows of file {units[ui][1][len(root):]} out of order (row {pos} after {last[1]})"
            last = (ui, pos)
        if order is not None:
            elems = [units[ui][0] for ui in seen_units]
            want = [i for i in order if any(u[0] == i and len(u[2]) for u in units)]
            dedup = [e for j, e in enumerate(elems) if j == 0 or elems[j - 1] != e]
            if dedup != want:
                return f"files come back in order {dedup}, given order {want}"
        # ---- values, categorical labels, partition columns ----------------------------------------
        for j, x in enumerate(xs):
            ui, pos = owner[x]
            i, path, df = units[ui]
            for c in ("f", "s"):
                if not cell_eq(out[c].iloc[j], df[c].iloc[pos]):
                    return f"row x={x} column {c}: read {out[c].iloc[j]!r}, file holds {df[c].iloc[pos]!r}"
            if not cell_eq(out["c"].iloc[j], df["c"].iloc[pos]):
                return (f"categorical label of row x={x} (file {path[len(root):]}): read {out['c'].iloc[j]!r}, "
                        f"file holds {df['c'].iloc[pos]!r}")
        # ---- announced number of categories (metadata) vs the files' label counts ---------------------
        counts_all = [len(categories_for(spec["cats"], i)) for i in range(spec["k"])]
        counts_rows = [len(categories_for(spec["cats"], i)) for i in range(spec["k"]) if any(u[0] == i and len(u[2]) for u in units)]
        if counts_rows and isinstance(out["c"].dtype, pd.CategoricalDtype):
            ann = pf.categories.get("c") if isinstance(pf.categories, dict) else None
            if not isinstance(ann, (int, np.integer)) or not (max(counts_rows) <= int(ann) <= max(counts_all)):
                return (f"pf.categories announces {ann!r} categories for column c; the files holding rows carry "
                        f"{counts_rows} labels (all files: {counts_all})")
            if len(out["c"].cat.categories) > int(ann):
                return f"column c read with {len(out['c'].cat.categories)} labels, {ann} announced"
        segs = {}
        for ui, u in enumerate(units):
            if len(u[2]):
                rel = _os.path.dirname(u[1])[len(base):].strip("/")
                segs[ui] = rel.split("/") if rel else []
        if not segs:
            return None
        hive = all(any("=" in t for t in ss) for ss in segs.values())
        want_cols = set()
        for ui, ss in segs.items():
            if hive:
                pairs = [tuple(t.split("=", 1)) for t in ss if "=" in t]      # only key=value levels are columns
            else:
                pairs = [(f"dir{q}", t) for q, t in enumerate(ss)]
            rows_of_unit = [j for j, x in enumerate(xs) if owner[x][0] == ui]
            for col, t in pairs:
                want_cols.add(col)
                if col not in out.columns:
                    return f"partition column {col!r} missing (columns {list(out.columns)}, scheme {pf.file_scheme!r})"
                for j in rows_of_unit:
                    if not text_read_as(out[col].iloc[j], t):
                        return (f"row x={xs[j]} of file {u[1][len(root):] if False else units[ui][1][len(root):]}: partition "
                                f"column {col} = {out[col].iloc[j]!r}, directory says {t!r}")
        if set(out.columns) != {"x", "f", "s", "c"} | want_cols:
            return f"columns read {list(out.columns)}, expected x, f, s, c + {sorted(want_cols)}"
        return None
    finally:
        _shutil.rmtree(d, ignore_errors=True)


def footer_schema(path):
    """the schema element list of a file's footer, decoded by the IDL-driven decoder of the spec library"""
    import struct
    from spec import thrift_idl
    with open(path, "rb") as f:
        b = f.read()
    n = struct.unpack("<I", b[-8:-4])[0]
    fmd, _ = thrift_idl.dec(thrift_idl.load(), "FileMetaData", bytes(b[len(b) - 8 - n:len(b) - 8]), 0, strict=False)
    return fmd.get("schema")


def check_verify(fastparquet, spec):
    """files with differing schemas must be rejected when verification is requested"""
    from fastparquet import ParquetFile
    from fastparquet.writer import merge
    d = _tempfile.mkdtemp(prefix="verif-c14v-")
    try:
        root = _os.path.join(d, "ds")
        _os.makedirs(root)
        paths = []
        for i in range(spec["k"]):
            df = pd.DataFrame({"x": np.arange(3, dtype="int64") + 10 * i, "y": np.arange(3) * 0.5,
                               "s": pd.Series(["a", "b", "c"], dtype="str"),
                               "t": pd.to_datetime(["2020-01-01 10:00", "2020-06-02 11:30", "2021-01-03 00:00"]),
                               "i": np.arange(3, dtype="int32") + i,
                               "o": pd.Series(["p", "q", "r"], dtype=object)})
            kw = {}
            if i == spec["odd"]:
                m = spec["mismatch"]
                if m == "dtype":
                    df["x"] = df["x"].astype("float64")
                elif m == "int_width":
                    df["x"] = df["x"].astype("int32")
                elif m == "extra_column":
                    df["z"] = 1
                elif m == "missing_column":
                    df = df.drop(columns=["y"])
                elif m == "renamed":
                    df = df.rename(columns={"y": "y2"})
                elif m == "order":
                    df = df[["y", "x", "s", "t", "i", "o"]]
                # ---- same names, same physical types: only the logical / converted annotation (or the
                # ---- repetition) of one column differs
                elif m == "tz_naive_vs_utc":            # INT64 TIMESTAMP(isAdjustedToUTC false / true)
                    df["t"] = df["t"].dt.tz_localize("UTC")
                elif m == "tz_naive_vs_named":
                    df["t"] = df["t"].dt.tz_localize("Europe/London")
                elif m == "ts_unit_us_vs_ms":           # INT64 TIMESTAMP(MICROS) / TIMESTAMP(MILLIS)
                    df["t"] = df["t"].astype("datetime64[ms]")
                elif m == "ts_unit_us_vs_ns":
                    df["t"] = df["t"].astype("datetime64[ns]")
                elif m == "str_vs_bytes":               # BYTE_ARRAY UTF8 / no annotation
                    df["o"] = pd.Series([b"p", b"q", b"r"], dtype=object)
                    kw = {"object_encoding": {"o": "bytes", "s": "utf8"}}
                elif m == "str_vs_json":                # BYTE_ARRAY UTF8 / JSON
                    df["o"] = pd.Series([{"p": 1}, ["q"], "r"], dtype=object)
                    kw = {"object_encoding": {"o": "json", "s": "utf8"}}
                elif m == "int32_vs_uint32":            # INT32 none / UINT_32
                    df["i"] = df["i"].astype("uint32")
                elif m == "int64_vs_uint64":            # INT64 none / UINT_64
                    df["x"] = df["x"].astype("uint64")
                elif m == "int64_vs_timedelta":         # INT64 none / TIME_MICROS
                    df["x"] = pd.to_timedelta(df["x"], unit="s")
                elif m == "optional_vs_required":       # every column REQUIRED in one file
                    kw = {"has_nulls": False}
                else:
                    raise KeyError(m)
            p = _os.path.join(root, f"f{i}.parquet")
            fastparquet.write(p, df, write_index=False, **kw)
            paths.append(p)
        schemas = [footer_schema(p) for p in paths]      # precondition (independent footer decoder): the schemas DO differ
        if all(sc == schemas[0] for sc in schemas):
            return "case construction: the files' schemas do not differ"
        try:
            if spec["open"] == "list_verify":
                ParquetFile(paths, verify=True)
            elif spec["open"] == "dir_verify":
                ParquetFile(root, verify=True)
            elif spec["open"] == "merge":
                merge(paths)
            elif spec["open"] == "merge_pf":
                merge([ParquetFile(p) for p in paths])
        except Exception:       # rejected
            return None
        return f"files with differing schemas ({spec['mismatch']} in file {spec['odd']}) were accepted"
    finally:
        _shutil.rmtree(d, ignore_errors=True)


def _footer_len(path):
    with open(path, "rb") as f:
        f.seek(-8, 2)
        return int.from_bytes(f.read(4), "little")


def check_fetch(fastparquet, spec):
    """k >= 3 single files opened as a list (footer-gathering path): the footer length of file `pos` is set to
    int(1.4 * H0) + delta (H0 = footer length of the first file) by padding a custom_metadata value, delta in [-12, 12]:
    the tail fetch of int(1.4 * H0) bytes covers the footer + 8 trailer bytes only for delta <= -8; beyond that the file
    must be re-fetched.  The dataset must open and read back as the concatenation, and keep file `pos`'s padded value out of the way."""
    root = _tempfile.mkdtemp(prefix="c14f-")
    try:
        k, pos, delta = spec["k"], spec["pos"], spec["delta"]
        frames = [pd.DataFrame({"id": np.arange(3, dtype="int64") + 10 * i, "s": [f"v{i}a", f"v{i}b", f"v{i}c"]}) for i in range(k)]
        paths = [_os.path.join(root, f"f{i}.parquet") for i in range(k)]
        for p, df in zip(paths, frames):
            fastparquet.write(p, df, custom_metadata={"pad": "x"})
        target = int(1.4 * _footer_len(paths[0])) + delta
        n = 1
        for _ in range(6):        # the varint length prefix of the value may grow by a byte: adjust until the footer has the target length
            got = _footer_len(paths[pos])
            if got == target:
                break
            n += target - got
            if n < 0:
                return None       # not reachable by padding (never the case for real footers)
            fastparquet.write(paths[pos], frames[pos], custom_metadata={"pad": "x" * n})
        if _footer_len(paths[pos]) != target:
            return None
        pf = fastparquet.ParquetFile(paths)
        got = pf.to_pandas()
        want = pd.concat(frames, ignore_index=True)
        if list(got["id"]) != list(want["id"]) or list(got["s"]) != list(want["s"]):
            return f"rows differ from the concatenation: {list(got['id'])}"
        if pf.count() != len(want):
            return f"count {pf.count()} != {len(want)}"
        return None
    finally:
        _shutil.rmtree(root, ignore_errors=True)



def check_order(fastparquet, spec):
    """k >= 3 single files (one row group each, distinct value ranges) given in a NON-sorted order (reversed / rotated): the handle
    must pair every path with ITS footer: rows in the given order, and the per-row-group statistics of the multi-file handle must
    be those of the files read alone, in the given order"""
    root = _tempfile.mkdtemp(prefix="c14o-")
    try:
        k = spec["k"]
        names = ["a.parquet", "b.parquet", "c.parquet", "d.parquet"][:k]
        frames = [pd.DataFrame({"id": np.arange(2 + i, dtype="int64") + 100 * i, "s": [f"f{i}r{j}" for j in range(2 + i)]}) for i in range(k)]
        for nm, df in zip(names, frames):
            fastparquet.write(_os.path.join(root, nm), df, stats=True)
        idx = {"reversed": list(range(k))[::-1], "rot1": list(range(1, k)) + [0], "rot2": list(range(2, k)) + [0, 1],
               "sorted": list(range(k))}[spec["order"]]
        paths = [_os.path.join(root, names[i]) for i in idx]
        pf = fastparquet.ParquetFile(paths)
        got = pf.to_pandas()
        want = pd.concat([frames[i] for i in idx], ignore_index=True)
        if list(got["id"]) != list(want["id"]) or list(got["s"]) != list(want["s"]):
            return f"rows differ from the concatenation in the given order {idx}: {list(got['id'])}"
        if [rg.num_rows for rg in pf.row_groups] != [len(frames[i]) for i in idx]:
            return f"row-group sizes {[rg.num_rows for rg in pf.row_groups]} are not those of the files in the given order"
        st = pf.statistics
        for col in ("id", "s"):
            for what in ("min", "max", "null_count"):
                alone = [fastparquet.ParquetFile(p_).statistics[what][col][0] for p_ in paths]
                if list(st[what][col]) != alone:
                    return f"statistics[{what!r}][{col!r}] of the multi-file handle {list(st[what][col])} != those of the files read alone {alone}"
        rel = [_os.path.basename(p_) for p_ in paths]
        if [rg.columns[0].file_path for rg in pf.row_groups] != rel:
            return f"row groups point at {[rg.columns[0].file_path for rg in pf.row_groups]}, expected {rel}"
        return None
    finally:
        _shutil.rmtree(root, ignore_errors=True)



def check_append_cats(fastparquet, spec):
    """a hive dataset whose categorical column grows across a code-width boundary by APPENDS (first `a` labels, then `b` labels, the label
    sets prefix-compatible; optionally a third append): after every append the dataset reads back (directory, list of the part
    files) and announces at least as many categories as any chunk holds"""
    root = _tempfile.mkdtemp(prefix="c14a-")
    try:
        counts = spec["counts"]
        frames = []
        for i, n in enumerate(counts):
            labels = [f"L{j:04d}" for j in range(n)]
            vals = [labels[-1], labels[0], labels[n // 2]]
            frames.append(pd.DataFrame({"id": np.arange(3, dtype="int64") + 10 * i, "c": pd.Categorical(vals, categories=labels)}))
        d = _os.path.join(root, "ds")
        for i, df in enumerate(frames):
            fastparquet.write(d, df, file_scheme="hive", append=(i > 0))
            want = pd.concat(frames[:i + 1], ignore_index=True)
            parts = sorted(_glob.glob(_os.path.join(d, "*.parquet")), key=lambda p_: int(_os.path.basename(p_).split(".")[1]))
            for how, target in (("directory", d), ("list", parts)):
                if how != spec["open"]:
                    continue
                pf = fastparquet.ParquetFile(target)
                if pf.categories.get("c", 0) < max(counts[:i + 1]):
                    return f"after append {i} ({how}): {pf.categories.get('c')} categories announced, a chunk holds {max(counts[:i + 1])}"
                got = pf.to_pandas()
                if list(got["id"]) != list(want["id"]) or [str(x) for x in got["c"]] != [str(x) for x in want["c"]]:
                    return f"after append {i} ({how}): rows differ: {[str(x) for x in got['c']]}"
        return None
    finally:
        _shutil.rmtree(root, ignore_errors=True)



def check_big_footer(fastparquet, spec):
    """one data file whose footer length is set to 65536 + delta (padded custom_metadata value), delta in [-16, 16] - around any 64 KiB
    read-ahead window of the header parser: it opens, reads back, and an in-place key-value update leaves it openable"""
    root = _tempfile.mkdtemp(prefix="c14b-")
    try:
        fn = _os.path.join(root, "big.parquet")
        df = pd.DataFrame({"id": np.arange(5, dtype="int64"), "s": ["a", "b", "c", "d", "e"]})
        target, n = 65536 + spec["delta"], 65000
        for _ in range(8):
            fastparquet.write(fn, df, custom_metadata={"pad": "x" * n})
            got = _footer_len(fn)
            if got == target:
                break
            n += target - got
        if _footer_len(fn) != target:
            return None
        pf = fastparquet.ParquetFile(fn)
        if list(pf.to_pandas()["id"]) != list(df["id"]) or pf.key_value_metadata.get("pad") != "x" * n:
            return f"footer of {target} bytes: rows or key-values differ after open"
        if spec.get("update"):
            fastparquet.writer.update_file_custom_metadata(fn, {"k": "v" * spec["update"]})
            pf = fastparquet.ParquetFile(fn)
            if list(pf.to_pandas()["id"]) != list(df["id"]) or pf.key_value_metadata.get("k") != "v" * spec["update"]:
                return f"after growing the footer from {target} by an in-place update: rows or key-values differ"
        return None
    finally:
        _shutil.rmtree(root, ignore_errors=True)


# <<< SNIPPET-CORE


def _core_source():
    src = inspect.getsource(sys.modules[__name__])
    return src[src.index("# >>> SNIPPET-CORE"):src.index("# <<< SNIPPET-CORE")]


def program(call):
    return ("import os, sys\nsys.path.insert(0, os.environ.get('VERIF_REPO', '/repo'))\n"
            f"sys.path.append({os.path.dirname(os.path.dirname(os.path.abspath(__file__)))!r})  # spec.thrift_idl (footer decoder)\n"
            "import fastparquet\n"
            + _core_source() + "\ntry:\n" + f"    WHAT = {call}\n"
            + "except Exception as e:      # an escaping exception is a failed contract\n"
            + "    WHAT = f'{type(e).__name__}: {e}'\nprint(WHAT)\nVIOLATED = WHAT is not None\n")


class snippet:
    def __init__(self, call):
        self.call = call

    def __str__(self):
        return program(self.call)


# ------------------------------------------------------------------------------------------------
OPENS = ["list", "list_rev", "list_verify", "list_pf", "dir", "glob", "merge", "merge_reopen"]
SHAPES = ["flat", "hive1", "hive2", "drill", "subds", "flatnum"]
CATS = ["same", "disjoint", "permuted", "prefix_growing"]


def enumerate_concat(tier):
    n = 0
    rows_modes = list(ROWS)
    # full cross of category configuration x open mode on the flat shape
    for k in (2, 3, 4):
        for op in OPENS:
            for cats in CATS:
                n += 1
                yield {"shape": "flat", "k": k, "open": op, "root": "inferred", "cats": cats,
                       "rows": rows_modes[n % 4], "codec_off": n % 5}
    # label counts that differ between the files and straddle a code-width boundary (nested label sets)
    for mi, cats in enumerate(NESTED):
        for k in (2, 3, 4):
            for op in OPENS:
                n += 1
                yield {"shape": "flat", "k": k, "open": op, "root": "inferred", "cats": cats,
                       "rows": ["mixed", "big", "ones", "zero_first"][(n + mi) % 4], "codec_off": n % 5}
        for si, shape in enumerate(("hive1", "flatnum", "subds", "drill")):
            for op in OPENS:
                if op == "list_pf" and shape == "subds":
                    continue
                if tier == "quick" and (si + mi + OPENS.index(op)) % 2:
                    continue
                n += 1
                yield {"shape": shape, "k": 4, "open": op, "root": ["inferred", "given"][(n + si) % 2] if op != "dir" else "inferred",
                       "cats": cats, "rows": ["mixed", "big", "ones"][n % 3], "codec_off": n % 5}
    # every shape x k x open x root; the rest rotates
    for shape in SHAPES:
        for k in (1, 2, 3, 4):
            for op in OPENS:
                for root in ("inferred", "given"):
                    if op == "dir" and root == "given":
                        continue
                    if op == "list_pf" and shape == "subds":
                        continue        # ParquetFile objects of directory datasets: see c14 notes (not a "path")
                    n += 1
                    reps = [0] if tier == "quick" else [0, 1, 2]
                    for r in reps:
                        yield {"shape": shape, "k": k, "open": op, "root": root,
                               "cats": ["same", "prefix_growing", "same", "disjoint", "same", "permuted"][(n + r) % 6],
                               "rows": rows_modes[(n + r) % len(rows_modes)], "codec_off": (n + r) % 5}


def dictionary_conflict(spec):
    """Is there a row whose dictionary code stands for another label (or none) in the dictionary of the file read
    last?  (True only if the files' dictionaries differ in a position some row uses.)  Read order = given order, reversed for
    list_rev; directory / glob listings are sorted by path."""
    idx = [i for i in range(spec["k"]) if ROWS[spec["rows"]][i] > 0]
    if spec["open"] == "list_rev":
        idx = idx[::-1]
    if spec["open"] in ("dir", "glob"):
        idx = sorted(idx, key=lambda i: element_path(spec, "", i))
    if len(idx) < 2:
        return False
    last = categories_for(spec["cats"], idx[-1])
    for i in idx:
        cats = categories_for(spec["cats"], i)
        for q in range(ROWS[spec["rows"]][i]):
            code = code_of(spec["cats"], i, q, len(cats))
            if code >= len(last) or last[code] != cats[code]:
                return True
    return False


def empty_subdataset_opened_first(spec):
    """>= 3 dataset directories given as a list without verification, and the first one given holds no rows"""
    if spec["shape"] != "subds" or spec["k"] < 3 or spec["open"] not in ("list", "list_rev"):
        return False
    first = spec["k"] - 1 if spec["open"] == "list_rev" else 0
    return ROWS[spec["rows"]][first] == 0


def concat_features(spec):
    rows = ROWS[spec["rows"]][:spec["k"]]
    return {"shape": spec["shape"], "files": spec["k"], "open": spec["open"], "root": spec["root"],
            "cats": spec["cats"], "rows": spec["rows"], "codec_off": spec["codec_off"],
            "nonempty_files": sum(1 for r in rows if r > 0),
            "dictionary_conflict": dictionary_conflict(spec),
            "empty_subdataset_opened_first": empty_subdataset_opened_first(spec),
            "footer_path": "gather" if spec["k"] >= 3 and spec["open"] in ("list", "list_rev", "glob", "dir")
                           and spec["shape"] != "subds" else "legacy"}


MISMATCHES = ("dtype", "int_width", "extra_column", "missing_column", "renamed", "order",
              "tz_naive_vs_utc", "tz_naive_vs_named", "ts_unit_us_vs_ms", "ts_unit_us_vs_ns", "str_vs_bytes",
              "str_vs_json", "int32_vs_uint32", "int64_vs_uint64", "int64_vs_timedelta", "optional_vs_required")


def enumerate_verify(tier):
    for m in MISMATCHES:
        for k in (2, 3, 4):
            for odd in sorted({0, k // 2, k - 1}):
                for op in ("list_verify", "dir_verify", "merge", "merge_pf"):
                    yield {"mismatch": m, "k": k, "odd": odd, "open": op}


def enumerate_append_cats(tier):
    # (label sets grow: the reader keeps the dictionary read LAST - shrinking histories are the known finding C14-categorical-labels-...)
    for counts in ([3, 150], [3, 150, 40000], [100, 128], [3, 3, 150], [127, 128, 129], [3, 100]):
        for how in ("list", "directory"):
            yield {"counts": counts, "open": how}


def enumerate_big_footer(tier):
    for delta in range(-16, 17):
        yield {"delta": delta, "update": 0}
    for delta in (-40, -30, -20, -12):
        for upd in (3, 9, 17, 25):
            yield {"delta": delta, "update": upd}


def enumerate_order(tier):
    for k in (3, 4):
        for order in ("reversed", "rot1", "rot2", "sorted"):
            yield {"k": k, "order": order}


def enumerate_fetch(tier):
    for k in (3, 4):
        for pos in sorted({1, k - 1}):
            for delta in range(-12, 13):
                yield {"k": k, "pos": pos, "delta": delta}


def _worker_main():
    """child process (plain `python -m runtime.c14_many_files`, PYTHONHASHSEED=0): jobs (JSON list of [index, spec]) on
    stdin; a line `B <i>` before and `E <i> <json what>` after every case, so that the parent can tell which case was
    running if this process dies in native code."""
    import traceback
    fp = import_fastparquet()
    out = sys.stdout
    for i, spec in json.load(sys.stdin):
        out.write(f"\nB {i}\n")
        out.flush()
        try:
            what = check_many(fp, spec[1]) if spec[0] == "concat" else check_fetch(fp, spec[1]) if spec[0] == "fetch" else check_order(fp, spec[1]) if spec[0] == "order" else check_big_footer(fp, spec[1]) if spec[0] == "big_footer" else check_append_cats(fp, spec[1]) if spec[0] == "append_cats" else check_verify(fp, spec[1])
        except BaseException as e:      # noqa: any escape = failed contract (reported by the parent)
            tb = traceback.extract_tb(e.__traceback__)
            at = f"{os.path.basename(tb[-1].filename)}:{tb[-1].lineno} {tb[-1].name}" if tb else "?"
            what = f"{type(e).__name__}: {str(e)[:200]} @ {at}"
        out.write(f"\nE {i} {json.dumps(what)}\n")
        out.flush()


NOT_EVALUATED = "\x00not-evaluated"


def _run_chunk(indexed):
    res, todo, deaths = {}, list(indexed), 0
    while todo:
        r = subprocess.run([sys.executable, "-m", "runtime.c14_many_files"], input=json.dumps(todo), capture_output=True,
                           text=True, env=dict(os.environ, PYTHONHASHSEED="0"), timeout=1800,
                           cwd=os.path.dirname(os.path.dirname(os.path.abspath(__file__))))
        began = None
        for line in r.stdout.splitlines():
            if line.startswith("B "):
                began = int(line[2:])
            elif line.startswith("E "):
                _, i, payload = line.split(" ", 2)
                res[int(i)] = json.loads(payload)
                began = None
        if r.returncode == 0 and began is None and all(i in res for i, _ in todo):
            break
        if began is None:
            raise RuntimeError(f"c14_many_files worker failed rc={r.returncode}: {r.stderr[-500:]}")
        sig = f"signal {-r.returncode}" if r.returncode < 0 else f"exit code {r.returncode}"
        res[began] = f"child process died ({sig}) while this case was running: {r.stderr.strip()[-160:]}"
        deaths += 1
        todo = [(i, j) for i, j in todo if i not in res]
        if deaths >= 6:
            for i, _ in todo:
                res[i] = NOT_EVALUATED
            break
    return res


def run_jobs(jobs, nproc):
    indexed = list(enumerate(jobs))
    with concurrent.futures.ThreadPoolExecutor(max_workers=nproc) as tex:
        parts = list(tex.map(_run_chunk, [indexed[i::nproc] for i in range(nproc)]))
    merged = {}
    for part in parts:
        merged.update(part)
    return [merged[i] for i in range(len(jobs))]


def run_bounded(ctx):
    import_fastparquet()
    GC, GV, GF, GO, GA, GB = "c14.concat", "c14.verify", "c14.fetch", "c14.order", "c14.append_cats", "c14.big_footer"
    ctx.bounded_group(GB, rule="one data file with a footer of 65536 + delta bytes, delta in [-16, 16] (33 lengths), plus footers just below the window "
                      "grown INTO it by an in-place key-value update (4 x 4): opens, rows and key-values right")
    ctx.bounded_group(GA, rule="append histories on a hive dataset whose categorical column has 3 -> 150 (-> 40000), 100 -> 128, 150 -> 3, 3 -> 3 -> 150, "
                      "127 -> 128 -> 129 prefix-compatible labels (crossing the int8 / int16 code widths): after every append, opened as directory (through the _metadata the append "
                      "wrote) or as list of the part files: rows == concatenation, labels right, categories announced >= the largest chunk's count")
    ctx.bounded_group(GO, rule="footer-gathering path: k in {3, 4} single files with distinct value ranges and row counts, listed reversed / rotated "
                      "by 1 / by 2 / sorted: rows in the given order, row-group sizes, file_path of every row group, and pf.statistics "
                      "(min / max / null_count per row group) equal to the statistics of each file read alone, in the given order")
    ctx.bounded_group(GC, rule="1..4 elements (single files; hive sub-datasets partitioned on p) with columns int64 id, "
                      "float64+NaN, str+None, categorical; shapes flat / flat with part.<n> names whose given order (2,10,9,100) is neither "
                      "the lexicographic order nor its reverse / k=v / a=v/b=w / u/x (drill) / sub-datasets; rows per "
                      "file from 6 patterns incl. 0 first/middle/last/all; codecs rotate over none/GZIP/SNAPPY/ZSTD/LZ4; "
                      "category sets same / disjoint / permuted / growing prefix / NESTED prefixes with label counts "
                      "7,40,90,300 | 90,200,200,300 | 200,90,40,7 (straddling the int8 code width, decimal strings ordered "
                      "unlike the values, rows using the highest code; full cross k{2,3,4} x open on the flat shape, k=4 on "
                      "hive1 / part.<n> / sub-datasets / drill) with the announced number of categories checked; opened via list, reversed list, "
                      "list+verify, list of ParquetFile objects, directory, glob, merge(), merge()+reopen; root given or "
                      "inferred; flat shape: full cross k{2,3,4} x open x category configuration")
    ctx.bounded_group(GV, rule="16 schema differences: 6 structural (dtype, int width, extra / missing / renamed column, column order) + 10 "
                      "where names and PHYSICAL types agree and only the annotation of one column differs (tz-naive vs tz-aware "
                      "UTC / named zone = TIMESTAMP.isAdjustedToUTC; timestamp unit us vs ms / ns; str vs bytes; str vs JSON; "
                      "int32 vs uint32; int64 vs uint64; int64 vs timedelta; optional vs required) - that the footers' schema "
                      "lists really differ is checked with the independent IDL footer decoder - x 2..4 files x differing "
                      "file first/middle/last (= both file orders) x {ParquetFile(list, verify=True), "
                      "ParquetFile(dir, verify=True), merge(paths), merge(ParquetFile objects)}: must raise")
    ctx.bounded_group(GF, rule="footer-gathering path (ParquetFile(list of k >= 3 single files)): the footer length of one later file swept "
                      "through int(1.4 * H0) - 12 .. int(1.4 * H0) + 12 (H0 = footer length of the first file; padded custom_metadata value) - "
                      "around the point where the first tail fetch stops covering footer + length field + magic; k in {3, 4} x padded file second / "
                      "last x 25 lengths: opens, rows == concatenation, count()  (a worker killed by a signal is a failed case)")
    concat = list(enumerate_concat(ctx.tier))
    verify = list(enumerate_verify(ctx.tier))
    fetch = list(enumerate_fetch(ctx.tier))
    order = list(enumerate_order(ctx.tier))
    appc = list(enumerate_append_cats(ctx.tier))
    bigf = list(enumerate_big_footer(ctx.tier))
    jobs = [("concat", s) for s in concat] + [("verify", s) for s in verify] + [("fetch", s) for s in fetch] + [("order", s) for s in order] + [("append_cats", s) for s in appc] + [("big_footer", s) for s in bigf]
    ncpu = os.cpu_count() or 2
    results = run_jobs(jobs, max(2, min(12, ncpu - 4)))
    skipped = sum(1 for w in results if w == NOT_EVALUATED)
    if skipped:
        ctx.note(f"c14: {skipped} cases not evaluated because worker processes kept dying (each death is a failed case)")
    for (kind, spec), what in zip(jobs, results):
        if what == NOT_EVALUATED:
            continue
        if kind == "concat":
            F = concat_features(spec)
            with Case(ctx, GC, F, snippet=snippet(f"check_many(fastparquet, {spec!r})"),
                      nontrivial=F["nonempty_files"] > 0,
                      contract="rows == concatenation of the files' rows in the given order; count(); partition columns "
                               "from directory names; categorical label of every row as in its file") as c:
                if what:
                    c.fail(what)
        elif kind == "big_footer":
            with Case(ctx, GB, {"footer_len_minus_64KiB": spec["delta"], "grown_by_update": spec["update"]}, snippet=snippet(f"check_big_footer(fastparquet, {spec!r})"),
                      contract="a valid file opens whatever its footer length is") as c:
                if what:
                    c.fail(what)
        elif kind == "append_cats":
            crosses = any(a <= w < b for a, b in zip(spec["counts"], spec["counts"][1:]) for w in (127, 32767))
            with Case(ctx, GA, {"label_counts": "-".join(map(str, spec["counts"])), "open": spec["open"], "crosses_code_width": crosses,
                                "count_grows_by_append": any(b > a for a, b in zip(spec["counts"], spec["counts"][1:]))}, snippet=snippet(f"check_append_cats(fastparquet, {spec!r})"),
                      contract="after every append the dataset reads back and announces enough categories") as c:
                if what:
                    c.fail(what)
        elif kind == "order":
            with Case(ctx, GO, {"files": spec["k"], "order": spec["order"]}, snippet=snippet(f"check_order(fastparquet, {spec!r})"),
                      contract="every listed path is paired with ITS footer: rows, row-group sizes, file paths and statistics follow the given order") as c:
                if what:
                    c.fail(what)
        elif kind == "fetch":
            F = {"files": spec["k"], "padded_file": spec["pos"], "footer_len_minus_first_fetch": spec["delta"]}
            with Case(ctx, GF, F, snippet=snippet(f"check_fetch(fastparquet, {spec!r})"),
                      contract="a list of >= 3 files opens and reads back as the concatenation whatever the footer lengths are") as c:
                if what:
                    c.fail(what)
        else:
            F = {"mismatch": spec["mismatch"], "files": spec["k"], "differing_file": spec["odd"], "open": spec["open"]}
            with Case(ctx, GV, F, snippet=snippet(f"check_verify(fastparquet, {spec!r})"),
                      contract="differing schemas + verification requested => raises") as c:
                if what:
                    c.fail(what)


if __name__ == "__main__":
    _worker_main()
