"""C19 (bounded): an append interrupted before its metadata update leaves the old dataset intact.

Contract-carrying `open_with` / `mkdirs` callables are handed to the real
`fastparquet.write(dir, df, file_scheme='hive', append=True, open_with=..., mkdirs=...)`
(and to `ParquetFile.write_row_groups`).  They
  (a) record, at every call, violations of the trace invariant: before the first open-for-write of
      `_metadata` / `_common_metadata` no pre-existing path is opened with a write mode; an existing
      DATA file is never opened for writing at all; after the first summary open only summary files
      are opened for writing;
  (b) raise OSError at the k-th filesystem call (open-for-write, write, close, mkdirs), for every k up
      to the number of calls of the fault-free run; `write` faults also in a torn variant (half of the
      bytes reach the file, then OSError); `close` faults also in a LOST variant: the final flush fails - close() raises
      OSError AND the bytes buffered since the last explicit flush never reach the file (a small part file is left EMPTY).
      An append that swallows the close error then returns normally with _metadata referencing an empty file.
After each run, from a fresh open:  the append raised and the fault came before the summary rewrite
started -> content == previous content and every pre-existing file is byte-identical;  the append
returned normally -> content == previous + new rows.  In every case: pre-existing data files byte-identical.
  (c) READ faults (the statement says "an I/O failure at any point before the summary metadata starts being rewritten"): the append starts
      by opening the existing dataset - open-for-read and read() of `_metadata` through the caller's open_with; the r-th such call is failed
      with OSError (quick tier: the first open-for-read and the first read() of `_metadata`; thorough: every position).  The append must
      report failure with every file byte-identical and the previous content readable - or, where the library legitimately
      recovers (its probe `open(<directory>)` failing is how it finds out that the path is a directory), return normally with previous +
      new rows.  An append that swallows the failure and starts a NEW dataset (overwriting part.0.parquet and _metadata) fails both.
"""
import os
import shutil

import numpy as np
import pandas as pd

from runtime.fsmodel import (build_snippet, data_files, is_summary, is_write_mode, pool_map, rows_of, same_multiset,
                             snap_diff, snapshot)
from runtime.harness import Case, import_fastparquet, tmpdir

G = "c19.fault_injection"

# ==== core begin
class C19Trace:
    """the contract-carrying callables + the fault"""

    def __init__(self, root, preexisting, fail_at=None, torn=False, rfail_at=None):
        self.root = os.path.abspath(root)
        self.pre = set(preexisting)            # relative posix paths that existed before the append
        self.fail_at, self.torn = fail_at, torn
        self.rfail_at = rfail_at               # fail the r-th READ-side call (open-for-read / read) instead
        self.rcalls = []                       # (kind, relpath) of every read-side call: 'ropen' | 'read'
        self.calls = []                        # (kind, relpath, detail) of every COUNTED filesystem call
        self.opens = []                        # every open (also reads): (relpath, mode)
        self.violations = []
        self.summary_started = None            # index (in calls) of the first summary open-for-write
        self.fault = None                      # the call that was failed

    def rel(self, path):
        p = os.path.abspath(str(path))
        return os.path.relpath(p, self.root).replace(os.sep, "/")

    def _count(self, kind, rel, detail=""):
        """register a counted call; -> True when this one has to fail"""
        self.calls.append((kind, rel, detail))
        if self.fail_at is not None and len(self.calls) == self.fail_at and self.fault is None:
            self.fault = {"k": self.fail_at, "kind": kind, "path": rel,
                          "phase": "summary" if (self.summary_started is not None and
                                                 not (kind == "open" and len(self.calls) - 1 == self.summary_started))
                          else "before-summary"}
            return True
        return False

    def _rcount(self, kind, rel):
        self.rcalls.append((kind, rel))
        if self.rfail_at is not None and len(self.rcalls) == self.rfail_at and self.fault is None:
            self.fault = {"k": "r%d" % self.rfail_at, "kind": kind, "path": rel,
                          "phase": "summary" if self.summary_started is not None else "before-summary"}
            return True
        return False

    def open_with(self, path, mode="rb"):
        rel = self.rel(path)
        self.opens.append((rel, mode))
        if not is_write_mode(mode):
            if self._rcount("ropen", rel):
                raise OSError(5, "injected fault: open for reading", str(path))
            return C19ReadFile(self, open(path, mode), rel)
        base = rel.rsplit("/", 1)[-1]
        summary = base in ("_metadata", "_common_metadata")
        if rel in self.pre and not summary:
            self.violations.append(f"existing data file {rel} opened with mode {mode!r}")
        if self.summary_started is None:
            if summary:
                self.summary_started = len(self.calls)
            elif rel in self.pre:
                self.violations.append(f"pre-existing path {rel} opened with mode {mode!r} before the summary rewrite")
        elif not summary:
            self.violations.append(f"{rel} opened with mode {mode!r} after the summary rewrite had started")
        if self._count("open", rel, mode):
            raise OSError(5, "injected fault: open", str(path))
        return C19File(self, open(path, mode), rel)

    def mkdirs(self, path):
        rel = self.rel(path)
        if self._count("mkdirs", rel):
            raise OSError(5, "injected fault: mkdirs", str(path))
        os.makedirs(path, exist_ok=True)


class C19File:
    def __init__(self, trace, f, rel):
        self._t, self._f, self._rel = trace, f, rel

    def write(self, data):
        if self._t._count("write", self._rel, len(data)):
            if self._t.torn:
                self._f.write(bytes(data)[:len(data) // 2])
                self._f.flush()
            raise OSError(5, "injected fault: write", self._rel)
        return self._f.write(data)

    def flush(self):
        self._f.flush()
        self._flushed = self._f.tell()

    def close(self):
        if self._f.closed:
            return
        if self._t._count("close", self._rel):
            if self._t.torn:
                # close() whose final flush fails: the bytes buffered since the last explicit flush never reach the file
                self._f.flush()
                self._f.truncate(getattr(self, "_flushed", 0))
            self._f.close()
            raise OSError(5, "injected fault: close", self._rel)
        self._f.close()

    def __enter__(self):
        return self

    def __exit__(self, *exc):
        self.close()
        return False

    def __getattr__(self, name):
        return getattr(self._f, name)


class C19ReadFile:
    """a file opened for reading through the caller's open_with: read() calls are counted (and may be failed)"""

    def __init__(self, trace, f, rel):
        self._t, self._f, self._rel = trace, f, rel

    def read(self, *a):
        if self._t._rcount("read", self._rel):
            raise OSError(5, "injected fault: read", self._rel)
        return self._f.read(*a)

    def __enter__(self):
        return self

    def __exit__(self, *exc):
        self._f.close()
        return False

    def __getattr__(self, name):
        return getattr(self._f, name)


def c19_frames(spec):
    """(existing frame, appended frame, row_group_offsets of the append)"""
    n_old = 3 * spec["existing_rgs"]
    old = pd.DataFrame({"x": np.arange(n_old, dtype="int64"), "f": np.arange(n_old) / 2.0,
                        "s": pd.Series([None if i % 3 == 1 else "s%d" % i for i in range(n_old)], dtype=object),
                        "p": np.array([1 + i % 2 for i in range(n_old)], dtype="int64")})
    nf = spec["new_files"]
    if spec["partitioned"]:
        # 1 file: one chunk, p=1 only; 2 files: one chunk, p in {1, 3} (3 = new directory);
        # 3 files: two chunks, first p=2 only, second p in {1, 3}
        pvals = {1: [1, 1], 2: [1, 3], 3: [2, 2, 1, 3]}[nf]
        rgo = [0, 2] if nf == 3 else None
    else:
        pvals = [1, 2] * nf
        rgo = list(range(0, 2 * nf, 2)) if nf > 1 else None
    n = len(pvals)
    new = pd.DataFrame({"x": np.arange(1000, 1000 + n, dtype="int64"), "f": np.arange(n) / 8.0 + 100,
                        "s": pd.Series(["n%d" % i if i % 2 else None for i in range(n)], dtype=object),
                        "p": np.array(pvals, dtype="int64")})
    return old, new, rgo


def c19_build(fp, spec, path):
    old, _new, _rgo = c19_frames(spec)
    fp.write(path, old, file_scheme="hive", partition_on=["p"] if spec["partitioned"] else [],
             row_group_offsets=list(range(0, len(old), 3)))


def c19_append(fp, spec, path, trace):
    _old, new, rgo = c19_frames(spec)
    part = ["p"] if spec["partitioned"] else []
    if spec["api"] == "write":
        fp.write(path, new, file_scheme="hive", partition_on=part, append=True, row_group_offsets=rgo,
                 open_with=trace.open_with, mkdirs=trace.mkdirs)
    else:
        pf = fp.ParquetFile(path, open_with=trace.open_with)
        pf.write_row_groups(new, row_group_offsets=rgo, open_with=trace.open_with, mkdirs=trace.mkdirs)


def c19_run_one(fp, spec, template, work, k, torn, rk=None):
    """one append on a fresh copy of the template dataset, fault at the k-th counted write-side call, or at the rk-th read-side call
    (both None: fault-free).  -> dict(what=None|text, n_calls, fault, raised)"""
    if os.path.exists(work):
        shutil.rmtree(work)
    shutil.copytree(template, work)
    before = snapshot(work)
    cols = ["f", "p", "s", "x"]
    old, new, _rgo = c19_frames(spec)
    rows_new = rows_of(new, cols)
    rows_old = rows_of(fp.ParquetFile(work).to_pandas(), cols)        # previous content, as a fresh open gives it
    if not same_multiset(rows_old, rows_of(old, cols)):
        return {"what": "oracle problem: the template dataset does not read back the frame it was written from",
                "n_calls": 0, "fault": None, "raised": None, "calls": [], "rcalls": []}
    trace = C19Trace(work, before.keys(), fail_at=k, torn=torn, rfail_at=rk)
    raised = None
    try:
        c19_append(fp, spec, work, trace)
    except Exception as e:
        raised = e
    out = {"n_calls": len(trace.calls), "fault": trace.fault, "raised": type(raised).__name__ if raised else None,
           "what": None, "calls": [(c[0], c[1]) for c in trace.calls], "rcalls": list(trace.rcalls)}
    if trace.violations:
        out["what"] = "trace invariant: " + "; ".join(trace.violations[:3])
        return out
    if k is not None and trace.fault is None:
        out["what"] = f"oracle problem: the run issued only {len(trace.calls)} calls, fault {k} never fired"
        return out
    if rk is not None and trace.fault is None:
        out["what"] = f"oracle problem: the run issued only {len(trace.rcalls)} read-side calls, read fault {rk} never fired"
        return out
    if k is None and rk is None and raised is not None:
        out["what"] = f"fault-free append raised {type(raised).__name__}: {str(raised)[:150]}"
        return out
    after = snapshot(work)
    _a, removed, changed = snap_diff(data_files(before), data_files(after))
    if removed or changed:
        out["what"] = f"pre-existing data files removed={removed} changed={changed}"
        return out
    in_scope = trace.fault is None or trace.fault["phase"] == "before-summary"
    if raised is not None and not in_scope:
        return out                  # torn summary rewrite: outside the statement
    try:
        got = rows_of(fp.ParquetFile(work).to_pandas(), cols)
    except Exception as e:
        out["what"] = f"append {'raised ' + type(raised).__name__ if raised else 'returned'}; afterwards the dataset does " \
                      f"not open/read: {type(e).__name__}: {str(e)[:150]}"
        return out
    if raised is not None:
        # no open-for-write of a summary file was seen through open_with, so the summary rewrite has not
        # started: the summary files cannot legitimately differ (all I/O of the append goes through open_with)
        _a, removed, changed = snap_diff(before, after)
        if removed or changed:
            out["what"] = f"append raised before the summary rewrite but files removed={removed} changed={changed}"
        elif got != rows_old:
            out["what"] = f"append raised {type(raised).__name__} but a fresh open reads {len(got)} rows, not the previous {len(rows_old)}"
    else:
        want = rows_old + rows_new
        ok = same_multiset(got, want) and got[:len(rows_old)] == rows_old
        if not ok:
            out["what"] = f"append returned normally but a fresh open reads {sorted(r[3] for r in got)}, expected ids {sorted(r[3] for r in want)}"
    return out


def c19_scenario(fp, spec, root):
    """fault-free run, then every k (and the torn variant of every write call)"""
    template = os.path.join(root, "template")
    work = os.path.join(root, "work")
    c19_build(fp, spec, template)
    free = c19_run_one(fp, spec, template, work, None, False)
    results = [(None, False, free)]
    if free["what"] is None:
        for k in range(1, free["n_calls"] + 1):
            results.append((k, False, c19_run_one(fp, spec, template, work, k, False)))
            if free["calls"][k - 1][0] in ("write", "close"):
                # write: torn (half the bytes, then OSError); close: the final flush fails - OSError AND the buffered bytes are lost
                results.append((k, True, c19_run_one(fp, spec, template, work, k, True)))
        # read-side faults at the start of the append (opening the existing dataset)
        rc = free["rcalls"]
        if spec.get("tier") == "thorough":
            rks = list(range(1, len(rc) + 1))
        else:
            first = {}
            for i, (kind, rel) in enumerate(rc, 1):
                if rel.rsplit("/", 1)[-1] == "_metadata":
                    first.setdefault(kind, i)
            rks = sorted(first.values())
        for rk in rks:
            results.append(("r%d" % rk, False, c19_run_one(fp, spec, template, work, None, False, rk)))
    for _k, _t, r in results:
        r.pop("calls", None)
        r.pop("rcalls", None)
    return results
# ==== core end


def enumerate_specs(tier, seed):
    specs = []
    for part in (False, True):
        for nf in (1, 2, 3):
            for ex in ((1, 2, 3) if tier == "thorough" else (1, 2)):
                for api in ("write", "write_row_groups"):
                    specs.append({"partitioned": part, "new_files": nf, "existing_rgs": ex, "api": api, "tier": tier})
    # datasets whose highest part number has two digits (part.10 > part.9 numerically, < lexicographically): a part-name
    # allocation that compares names as text reuses an existing number and opens an existing data file for writing
    for part in (False, True):
        for api in (("write", "write_row_groups") if tier == "thorough" else ("write",)):
            specs.append({"partitioned": part, "new_files": 1, "existing_rgs": 11, "api": api, "tier": tier})
    return specs


def features_of(spec, k, torn, r):
    f = {"partition_cols": 1 if spec["partitioned"] else 0, "new_part_files": spec["new_files"],
         "existing_row_groups": spec["existing_rgs"], "api": spec["api"], "k": k if k is not None else "fault-free",
         "fault": "none" if k is None else ("read-raise" if isinstance(k, str) else "torn" if torn else "raise")}
    flt = r.get("fault")
    if flt:
        if f["fault"] == "torn":
            f["fault"] = "close-lost" if flt["kind"] == "close" else "torn-write"
        f["call"] = flt["kind"]
        f["target"] = "summary" if is_summary(flt["path"]) else ("dir" if flt["kind"] == "mkdirs" else "root" if flt["path"] == "." else "part")
        f["phase"] = flt["phase"]
    return f


def snippet_of(spec, k, torn):
    tail = "\n".join([
        "root = tempfile.mkdtemp(prefix='verif-c19-')",
        "try:",
        "    c19_build(fp, SPEC, os.path.join(root, 'template'))",
        "    R = c19_run_one(fp, SPEC, os.path.join(root, 'template'), os.path.join(root, 'work'), %r, %r, %r)"
        % ((None, False, int(k[1:])) if isinstance(k, str) else (k, torn, None)),
        "finally:",
        "    shutil.rmtree(root, ignore_errors=True)",
        "R.pop('calls', None); R.pop('rcalls', None); print(R)",
        "VIOLATED = R['what'] is not None",
    ])
    return build_snippet(__file__, spec, tail)


_FP = None


def _worker(spec):
    global _FP
    if _FP is None:
        _FP = import_fastparquet()
    with tmpdir("verif-c19-") as root:
        try:
            return c19_scenario(_FP, spec, root)
        except Exception as e:
            return [(None, False, {"what": f"scenario could not be run: {type(e).__name__}: {str(e)[:200]}",
                                   "n_calls": 0, "fault": None, "raised": None})]


def run_bounded(ctx):
    ctx.bounded_group(G, rule=(
        "hive datasets with 0 | 1 partition column and 1 | 2 existing row groups; appended frame producing 1 | 2 | 3 "
        "new part files (partitioned: into an existing directory, an existing + a NEW directory, two chunks); through "
        "fastparquet.write(append=True) | ParquetFile.write_row_groups; for each of the 24 scenarios the fault-free "
        "run, then a fault at EVERY k = 1..N of its N counted calls (open-for-write, write, close of written files, "
        "mkdirs), every write call also as a torn write (half the bytes, then OSError), every close call also as a LOST close "
        "(OSError and the buffered bytes never reach the file).  Faults are one-shot OSError. "
        "A fault on the open of _metadata itself counts as 'before the summary rewrite' (nothing truncated yet); later "
        "faults (phase=summary) are outside the statement's first half and only checked for the trace invariant, "
        "untouched data files and 'returned normally => new content'.  Plus READ faults at the start of the append (the existing "
        "dataset is opened through the caller's open_with): quick tier the first open-for-read and the first read() of _metadata, "
        "thorough tier every read-side call r = 1..R; the append must raise, all files byte-identical, previous content readable."))
    specs = enumerate_specs(ctx.tier, ctx.seed)
    results = pool_map(_worker, specs, chunksize=1)
    for spec, res in zip(specs, results):
        for k, torn, r in res:
            feats = features_of(spec, k, torn, r)
            in_scope = not r.get("fault") or r["fault"]["phase"] == "before-summary"
            with Case(ctx, G, feats, snippet=snippet_of(spec, k, torn), nontrivial=in_scope or r["raised"] is None,
                      contract="trace invariant at every call; raised before summary rewrite => previous content, files "
                               "byte-identical; returned => new content; existing data files never opened for writing") as c:
                if r["what"] is not None:
                    c.fail(r["what"])
