"""Developer entry: run one bounded module alone, evidence into a scratch dir.
   .venv/bin/python -m runtime.run_one c01_roundtrip C01 [quick|thorough]"""


def main():
    import importlib, os, sys, tempfile, json, time
    d = tempfile.mkdtemp(prefix="verif-ev-")
    os.environ["VERIF_EVIDENCE_DIR"] = d
    from vlib.common import Ctx
    mod, prop = sys.argv[1], sys.argv[2]
    tier = sys.argv[3] if len(sys.argv) > 3 else "quick"
    ctx = Ctx(prop, tier, int(os.environ.get("VERIF_SEED", "0")))
    t = time.time()
    importlib.import_module("runtime." + mod).run_bounded(ctx)
    rc = ctx.finish("exploration", "developer run of one bounded module")
    ev = json.load(open(os.path.join(d, prop + ".json")))
    print(json.dumps({k: ev["coverage"].get(k) for k in ("evaluations", "distinct_nontrivial", "bounded_groups")}, indent=1))
    print("violations:", len(ctx.violations), "known:", [k[0] for k in ctx.known_hits], "rc:", rc, "wall: %.1fs" % (time.time() - t))
    import shutil; shutil.rmtree(d, ignore_errors=True)


if __name__ == "__main__":
    main()
