"""C08 (bounded): directory-partitioned write/read preserves every row and every partition value.

Groups
  c08.value       per-value round trip of the partition-value plumbing on the REAL functions:
                  util.val_to_num(util.path_string(v), util.get_column_metadata(column)) == v, same kind
  c08.paths       api.paths_to_cats on path lists spelled by the oracle (hive `name=text/part.N.parquet`)
                  with the partition_columns block produced by the real writer metadata function
  c08.write_read  postcondition of fastparquet.write(dir, df, file_scheme='hive'|'drill', partition_on=[...])
                  evaluated on the directory tree, on every part file decoded alone, and on
                  ParquetFile(dir).to_pandas() / .cats
  c08.drill_mixed the same postcondition for drill levels that mix re-typable and plain text, run in child
                  processes under several PYTHONHASHSEED values (the outcome must not depend on set order)

Oracle: plain pandas/numpy.  A directory segment `t` "names" a key value `v` iff parsing `t` by the KIND of `v`
(int / float / bool / timestamp / text) gives `v` — no formatting routine of fastparquet is used.
"""
import concurrent.futures
import inspect
import json
import os
import subprocess
import sys
import textwrap

from runtime.harness import Case, import_fastparquet

# ------------------------------------------------------------------------------------------------
# Everything between the two markers is pasted verbatim into replay snippets (self-contained).
# ------------------------------------------------------------------------------------------------
# >>> SNIPPET-CORE
import datetime as _dt
import glob as _glob
import numbers as _numbers
import os as _os
import shutil as _shutil
import tempfile as _tempfile

import numpy as np
import pandas as pd

POOLS = {
    "int64": [0, -1, 7, 2 ** 53 + 1, -2 ** 63, 2 ** 63 - 1, 10, 100],
    "int8": [-128, 127, 0, 5, -1],
    "uint64": [0, 2 ** 64 - 1, 2 ** 63, 5, 1],
    "float64": [0.7, 1e5, -0.0, float("inf"), 1e-7, float("-inf"), 1e22, 0.1 + 0.2, 5e-324,
                1.7976931348623157e308, -2.5, 1.0, 123456789.125],
    "float32": [0.7, 1.5, -3.25, 1e10, float("inf"), 16777216.0],
    "bool": [True, False],
    "boolean": [True, False],
    "Int64": [1, -5, 2 ** 40, 0, 2 ** 63 - 1],
    "dt_ns": ["2020-01-01", "2021-06-01 12:00:00.123456789", "1970-01-01", "1677-09-22 00:12:44",
              "2262-04-11 23:47:16.854775807", "1999-12-31 23:59:59.999"],
    "dt_us": ["2020-01-01", "2021-06-01 12:00:00.123456", "1970-01-01", "1600-02-29 01:02:03", "1999-12-31 23:59:59.999"],
    "dt_ms": ["2020-01-01", "2021-06-01 12:00:00.123", "1970-01-01", "1600-02-29 01:02:03", "2400-02-29"],
    "dt_s": ["2020-01-01", "2021-06-01 12:00:00", "1970-01-01", "1600-02-29 01:02:03", "2400-02-29"],
    "dt_tz_utc": ["2020-01-01", "2021-06-01 12:00:00", "1970-01-01"],
    "dt_tz_berlin": ["2020-01-01", "2021-06-01 12:00:00", "1970-01-01"],
    "str_plain": ["abc", "Zz_q", "x y", "é中", "q-1_2.z"],
    "str_num": ["007", "1e5", "-0", ".5", "12"],
    "str_numeric": ["007", "1e5", "-0", "0x10", "1_000", "١٢٣", ".5", "5.", "inf", "nan", "NaN",
                    "1e400", "0.7", "-1"],
    "str_special": ["True", "False", "now", "today", "NOW", "None", "null", "NaT", "5 days", "2020-01-01",
                    "true", "T", "1"],
    "str_punct": [" lead", "trail ", "c#d", "e?f", "g%2Fh", "*", "tab\there", "new\nline", "~", ":", "+", "&",
                  "a.b", "[x]", "{y}", "k", "dir0", "q'\"", "k2:v", "%", " ", "a,b;c"],
    "str_backslash": ["a\\b", "\\lead", "trail\\", "d\\e\\f", "x\\\\y"],
    "str_object": ["007", "abc", "True", "x y", "1.5"],
    "cat_str": ["a", "b", "007", "True", "x y"],
    "cat_int": [1, 2, -7, 40, 5],
}
NULLABLE = {"float64", "float32", "boolean", "Int64", "dt_ns", "dt_us", "dt_ms", "dt_s", "str_plain", "str_num",
            "str_numeric", "str_special", "str_punct", "str_object", "cat_str"}


def key_values(kind, card, off):
    pool = POOLS[kind]
    card = min(card, len(pool))
    return [pool[(off + j) % len(pool)] for j in range(card)]


def key_series(kind, vals, unused=False):
    """vals: pool values (None = null key) -> Series of the kind's dtype."""
    if kind in ("int64", "int8", "uint64"):
        return pd.Series(np.array(vals, dtype=kind))
    if kind in ("float64", "float32"):
        return pd.Series(np.array([np.nan if v is None else v for v in vals], dtype=kind))
    if kind == "bool":
        return pd.Series(np.array(vals, dtype=bool))
    if kind in ("boolean", "Int64"):
        return pd.Series(pd.array(vals, dtype=kind))
    if kind.startswith("dt_"):
        unit = {"dt_tz_utc": "us", "dt_tz_berlin": "us"}.get(kind, kind[3:])
        s = pd.Series([pd.NaT if v is None else pd.Timestamp(v) for v in vals]).astype(f"datetime64[{unit}]")
        if kind == "dt_tz_utc":
            s = s.dt.tz_localize("UTC")
        if kind == "dt_tz_berlin":
            s = s.dt.tz_localize("Europe/Berlin")
        return s
    if kind == "str_object":
        return pd.Series(list(vals), dtype=object)
    if kind.startswith("str_"):
        return pd.Series(list(vals), dtype="str")
    if kind == "cat_str":
        cats = sorted({v for v in vals if v is not None}) + (["unused_zz", "9"] if unused else [])
        return pd.Series(pd.Categorical(list(vals), categories=cats))
    if kind == "cat_int":
        cats = sorted({v for v in vals if v is not None}) + ([999] if unused else [])
        return pd.Series(pd.Categorical(list(vals), categories=cats))
    raise KeyError(kind)


def value_columns(bundle, n):
    i = np.arange(n)
    out = {"rid": pd.Series(i.astype("int64") * 3 + 1)}
    if bundle in ("V1", "V3"):
        f = (i * 0.5 - 3).astype("float64")
        f[i % 4 == 1] = np.nan
        out["f"] = pd.Series(f)
        out["s"] = pd.Series([None if j % 5 == 2 else f"s{j % 7}é" for j in range(n)], dtype="str")
    if bundle in ("V2", "V3"):
        out["b"] = pd.Series(i % 3 == 0)
        out["t"] = pd.Series(pd.to_datetime("2001-01-01") + pd.to_timedelta(i * 37, unit="h"))
        out["c"] = pd.Series(pd.Categorical([["lo", "mid", "hi"][j % 3] for j in range(n)],
                                            categories=["lo", "mid", "hi", "never"]))
    if bundle == "V3":
        out["i"] = pd.Series(pd.array([None if j % 6 == 3 else j - 4 for j in range(n)], dtype="Int64"))
        out["u"] = pd.Series((i * 7 % 256).astype("uint8"))
    return out


def make_frame(spec):
    """spec: keys=[{name, kind, card, off}], rows, pattern, nulls, bundle, unused -> DataFrame"""
    n = spec["rows"]
    cols = {}
    nk = len(spec["keys"])
    for ki, k in enumerate(spec["keys"]):
        vals = key_values(k["kind"], k["card"], k["off"])
        c = len(vals)
        if spec["pattern"] == "full":        # every combination of key values is used (if rows suffice)
            stride = 1
            for kk in spec["keys"][:ki]:
                stride *= min(kk["card"], len(POOLS[kk["kind"]]))
            idx = [(j // stride) % c for j in range(n)]
        elif spec["pattern"] == "diag":      # only "diagonal" combinations: most combinations stay empty
            idx = [j % c for j in range(n)]
        else:                                # blocks: long runs of one key, so row-group splits cut through them
            idx = [(j * c) // max(n, 1) for j in range(n)]
            if ki % 2:
                idx = idx[::-1]
        col = [vals[x] for x in idx]
        if spec.get("nulls") and k["kind"] in NULLABLE:
            col = [None if (j + ki) % 4 == 3 else v for j, v in enumerate(col)]
        if spec.get("null_tail_key") == k["name"]:      # the whole second half of the rows has a null here
            col = [None if j >= n // 2 else v for j, v in enumerate(col)]
        cols[k["name"]] = key_series(k["kind"], col, spec.get("unused", False))
    vc = value_columns(spec["bundle"], n)
    order = list(vc)
    # partition columns are interleaved with the value columns, not just appended
    names = order[:1] + [k["name"] for k in spec["keys"]] + order[1:]
    cols.update(vc)
    df = pd.DataFrame({c: cols[c] for c in names})
    ri = spec.get("row_index", "unique_range")
    if ri != "unique_range" and n:
        # ROW INDEX WITH REPEATED LABELS (rows are identified by position, never by label)
        if ri == "dup_concat":          # pd.concat([a, b]) without ignore_index: 0..h-1 followed by 0..n-h-1
            labels = list(range((n + 1) // 2)) + list(range(n - (n + 1) // 2))
        elif ri == "constant":
            labels = [0] * n
        elif ri == "dup_scattered":     # a few labels, scattered, named index
            labels = [(j * 3) % 4 for j in range(n)]
        elif ri == "equals_key":        # the index carries the values of the first partition key
            labels = list(df[spec["keys"][0]["name"]].astype(object))
        else:
            raise KeyError(ri)
        df.index = pd.Index(labels, name="lab" if ri == "dup_scattered" else None)
    return df


def kind_of(x):
    if isinstance(x, (bool, np.bool_)):
        return "bool"
    if isinstance(x, _numbers.Integral):
        return "int"
    if isinstance(x, (float, np.floating)):
        return "float"
    if isinstance(x, (pd.Timestamp, np.datetime64, _dt.datetime)):
        return "timestamp"
    if isinstance(x, str):
        return "text"
    return type(x).__name__


def same_value(a, b):
    """equal values of the same kind (ints, floats, booleans, timestamps, text)"""
    ka, kb = kind_of(a), kind_of(b)
    if ka != kb:
        return False
    if ka == "float":
        return (a != a and b != b) or float(a) == float(b)
    if ka == "timestamp":
        ta, tb = pd.Timestamp(a), pd.Timestamp(b)
        if (ta.tzinfo is None) != (tb.tzinfo is None):
            return False
        return ta == tb
    if ka == "int":
        return int(a) == int(b)
    return a == b


def names_value(t, v):
    """Does the directory text `t` name the key value `v`?  Parsed by the kind of v; no fastparquet code."""
    k = kind_of(v)
    try:
        if k == "text":
            return t == v
        if k == "bool":
            return t in ("True", "False") and (t == "True") == bool(v)
        if k == "int":
            return int(t) == int(v)
        if k == "float":
            ft, fv = float(t), float(v)
            return ft != ft if fv != fv else ft == fv
        if k == "timestamp":
            a, b = pd.Timestamp(t), pd.Timestamp(v)
            if (a.tzinfo is None) != (b.tzinfo is None):
                return False
            return a == b
    except (ValueError, TypeError, OverflowError):
        return False
    return False


def reads_text(r, t):
    """drill: the positional column value r is the directory text t or a typed reading of it"""
    if isinstance(r, str):
        return r == t
    return names_value(t, r)


def cell_equal(a, b):
    na = a is None or a is pd.NA or a is pd.NaT or (isinstance(a, (float, np.floating)) and a != a)
    nb = b is None or b is pd.NA or b is pd.NaT or (isinstance(b, (float, np.floating)) and b != b)
    if na or nb:
        return na and nb
    if isinstance(a, (pd.Timestamp, np.datetime64)) or isinstance(b, (pd.Timestamp, np.datetime64)):
        return pd.Timestamp(a) == pd.Timestamp(b)
    return a == b


def key_cell(df, name, pos):
    v = df[name].iloc[pos]
    if v is None or v is pd.NA or v is pd.NaT or (isinstance(v, (float, np.floating)) and v != v):
        return None
    return v


def check_partitioned(fastparquet, spec):
    """-> None if the C08 postcondition holds for this case, else a description of what differs.
    A raising WRITE is not acceptable here either: every enumerated frame is inside the property's domain."""
    df = make_frame(spec)
    keys = [k["name"] for k in spec["keys"]]
    scheme = spec["scheme"]
    valcols = [c for c in df.columns if c not in keys]
    # rows that must be stored: all keys non-null
    expected = {}
    for pos in range(len(df)):
        kv = [key_cell(df, k, pos) for k in keys]
        if all(v is not None for v in kv):
            expected[int(df["rid"].iloc[pos])] = (pos, kv)
    d = _tempfile.mkdtemp(prefix="verif-c08-")
    try:
        root = _os.path.join(d, "ds")
        kw = {}
        if spec["rgo"] is not None:
            kw["row_group_offsets"] = spec["rgo"]
        write_index = bool(spec.get("write_index", False))
        fastparquet.write(root, df, file_scheme=scheme, partition_on=keys, write_index=write_index, **kw)
        files = [_os.path.join(dp, f) for dp, _dn, fn in _os.walk(root) for f in fn
                 if f not in ("_metadata", "_common_metadata")]
        where = {}
        for f in sorted(files):
            rel = _os.path.relpath(_os.path.dirname(f), root)
            segs = [] if rel == "." else rel.split(_os.sep)
            part = fastparquet.ParquetFile(f).to_pandas()
            if len(segs) != len(keys):
                return f"part file {_os.path.relpath(f, root)!r} sits {len(segs)} directory levels deep, {len(keys)} partition columns"
            for j in range(len(part)):
                rid = int(part["rid"].iloc[j])
                if rid in where:
                    return f"row rid={rid} stored twice: {where[rid]} and {segs}"
                where[rid] = segs
                if rid not in expected:
                    return f"row rid={rid} (null key or unknown) stored in {segs}"
                pos, kv = expected[rid]
                for name, seg, v in zip(keys, segs, kv):
                    if scheme == "hive":
                        if not seg.startswith(name + "="):
                            return f"directory segment {seg!r} is not `{name}=<value>`"
                        t = seg[len(name) + 1:]
                    else:
                        t = seg
                    if not names_value(t, v):
                        return f"row rid={rid} with {name}={v!r} is stored under directory segment {seg!r}"
                for c in valcols:
                    if not cell_equal(part[c].iloc[j], df[c].iloc[pos]):
                        return f"part file {segs}: row rid={rid} column {c}: {part[c].iloc[j]!r} != {df[c].iloc[pos]!r}"
                if write_index and not cell_equal(part.index[j], df.index[pos]):
                    return f"part file {segs}: row rid={rid} stored with index label {part.index[j]!r}, written {df.index[pos]!r}"
        missing = sorted(set(expected) - set(where))
        if missing:
            return f"{len(missing)} rows with non-null keys are in no part file, e.g. rid={missing[:3]}"
        # ---- the dataset read back as a whole --------------------------------------------------
        pf = fastparquet.ParquetFile(root)
        out = pf.to_pandas()
        rids = [int(x) for x in out["rid"]]
        if sorted(rids) != sorted(expected):
            dup = sorted({r for r in rids if rids.count(r) > 1})
            return (f"read back {len(rids)} rows, expected {len(expected)}; duplicated rid={dup[:3]}, "
                    f"missing rid={sorted(set(expected) - set(rids))[:3]}")
        outcols = [f"dir{i}" for i in range(len(keys))] if scheme == "drill" else keys
        for c in outcols:
            if c not in out.columns:
                return f"partition column {c!r} missing from the frame read back (columns {list(out.columns)}, file_scheme {pf.file_scheme!r})"
        for j, rid in enumerate(rids):
            pos, kv = expected[rid]
            for c in valcols:
                if not cell_equal(out[c].iloc[j], df[c].iloc[pos]):
                    return f"row rid={rid} column {c}: read {out[c].iloc[j]!r}, written {df[c].iloc[pos]!r}"
            if write_index and not cell_equal(out.index[j], df.index[pos]):
                return f"row rid={rid}: index label read {out.index[j]!r}, written {df.index[pos]!r}"
            for c, v, seg, name in zip(outcols, kv, where[rid], keys):
                r = out[c].iloc[j]
                if scheme == "hive":
                    if not same_value(r, v):
                        return (f"row rid={rid}: partition column {c} written {v!r} ({kind_of(v)}) "
                                f"read back {r!r} ({kind_of(r)})")
                else:
                    if not (same_value(r, v) or reads_text(r, seg)):
                        return f"row rid={rid}: {c} read back {r!r} for directory {seg!r} (key {name}={v!r})"
        # ---- .cats ----------------------------------------------------------------------
        cats = pf.cats
        if sorted(cats) != sorted(outcols):
            return f".cats has keys {list(cats)}, expected {outcols}"
        for i, c in enumerate(outcols):
            used = []
            for rid, (pos, kv) in expected.items():
                if not any(same_value(kv[i], u) for u in used):
                    used.append(kv[i])
            got = list(cats[c])
            if scheme == "hive":
                if len(got) != len(used) or not all(any(same_value(g, u) for u in used) for g in got):
                    return f".cats[{c!r}] = {got!r}, values in use {used!r}"
            elif len(got) != len({where[rid][i] for rid in expected}):
                return f".cats[{c!r}] = {got!r} for directories {sorted({where[rid][i] for rid in expected})!r}"
        return None
    finally:
        _shutil.rmtree(d, ignore_errors=True)


def check_value(fastparquet, kind, j):
    """c08.value: val_to_num(path_string(v), meta_of(column)) == v with the same kind (real functions)."""
    from fastparquet import util
    pool = POOLS[kind]
    col = key_series(kind, pool)
    v = col.iloc[j]
    meta = util.get_column_metadata(col, "k")
    t = util.path_string(v)
    if "/" in t or "=" in t:
        return f"oracle pool error: {t!r}"
    r = util.val_to_num(t, meta)
    if not same_value(r, v):
        return f"{kind}: value {v!r} -> path text {t!r} -> {r!r} ({kind_of(r)}; wanted {kind_of(v)})"
    return None


def check_paths(fastparquet, kinds, scheme, nparts):
    """c08.paths: api.paths_to_cats over oracle-spelled paths; all pool values of each kind."""
    from fastparquet import util, api
    cols = [key_series(k, POOLS[k]) for k in kinds]
    names = [f"k{i}" for i in range(len(kinds))]
    meta = {n: util.get_column_metadata(c, n) for n, c in zip(names, cols)}
    m = max(len(c) for c in cols)
    paths, rows = [], []
    for j in range(m):
        vals = [c.iloc[j % len(c)] for c in cols]
        texts = [v.isoformat() if isinstance(v, pd.Timestamp) else str(v) for v in vals]
        segs = [f"{n}={t}" for n, t in zip(names, texts)] if scheme == "hive" else texts
        for p in range(nparts):
            paths.append("/".join(segs + [f"part.{p}.parquet"]))
        rows.append(vals)
    sch, cats = api.paths_to_cats(paths, meta)
    if sch != scheme:
        return f"scheme detected as {sch!r}, paths are {scheme}: {paths[:2]}"
    want_names = names if scheme == "hive" else [f"dir{i}" for i in range(len(kinds))]
    if list(cats) != want_names:
        return f"keys {list(cats)} != {want_names}"
    for i, n in enumerate(want_names):
        used = []
        for vals in rows:
            if not any(same_value(vals[i], u) for u in used):
                used.append(vals[i])
        got = list(cats[n])
        if scheme == "hive":
            if len(got) != len(used) or not all(any(same_value(g, u) for u in used) for g in got):
                return f"cats[{n!r}] = {got!r}, wanted {used!r}"
        elif len(got) != len(used):
            return f"cats[{n!r}] = {got!r}, {len(used)} distinct directories"
    return None
# <<< SNIPPET-CORE


def _core_source():
    src = inspect.getsource(sys.modules[__name__])
    return src[src.index("# >>> SNIPPET-CORE"):src.index("# <<< SNIPPET-CORE")]


def program(call, extra_pools=None):
    inject = "".join(f"POOLS[{k!r}] = {v!r}\n" for k, v in (extra_pools or {}).items())
    return ("import os, sys\nsys.path.insert(0, os.environ.get('VERIF_REPO', '/repo'))\nimport fastparquet\n"
            + _core_source() + "\n" + inject + "try:\n" + f"    WHAT = {call}\n"
            + "except Exception as e:      # an escaping exception is a failed contract\n"
            + "    WHAT = f'{type(e).__name__}: {e}'\nprint(WHAT)\nVIOLATED = WHAT is not None\n")


class snippet:
    """rendered lazily (json default=str) when a replay file is written"""

    def __init__(self, call, extra_pools=None):
        self.call, self.extra = call, extra_pools

    def __str__(self):
        return program(self.call, self.extra)


# ------------------------------------------------------------------------------------------------
# enumeration
# ------------------------------------------------------------------------------------------------
SINGLE_KINDS = ["int64", "int8", "uint64", "float64", "float32", "bool", "boolean", "Int64", "dt_ns", "dt_us", "dt_ms",
                "dt_s", "dt_tz_utc", "dt_tz_berlin", "str_plain", "str_num", "str_numeric", "str_special",
                "str_punct", "str_backslash", "str_object", "cat_str", "cat_int"]
# drill levels must be homogeneous (all plain text or all simply numeric): mixing is c08.drill_mixed
DRILL_OK = {"int64", "int8", "uint64", "float64", "float32", "bool", "boolean", "Int64", "dt_ns", "dt_us", "dt_ms", "dt_s",
            "dt_tz_utc", "dt_tz_berlin", "str_plain", "str_num", "str_punct", "str_backslash", "cat_int"}
MULTI_KINDS = ["int64", "float64", "bool", "dt_ns", "dt_s", "str_plain", "str_numeric", "str_special", "cat_str", "Int64"]
MULTI_DRILL = ["int64", "float64", "bool", "dt_ns", "dt_s", "str_plain", "str_num", "str_punct", "Int64", "uint64"]
RGOS = {"none": None, "int": 3, "list": [0, 2, 7]}
BUNDLES = ["V0", "V1", "V2", "V3"]


def rgo_for(name, rows):
    if name == "list":
        return [o for o in [0, 2, 7, 8, 20] if o < rows] or [0]
    return RGOS[name]


def enumerate_write_cases(tier):
    n = 0
    for kind in SINGLE_KINDS:
        pool = len(POOLS[kind])
        for scheme in ("hive", "drill"):
            if scheme == "drill" and kind not in DRILL_OK:
                continue
            for card in sorted({1, 2, min(5, pool), pool} if tier == "thorough" else {1, 2, min(5, pool)}):
                for rg in ("none", "int", "list"):
                    for off in ([0] if tier == "quick" else range(0, pool, 2)):
                        n += 1
                        rows = [1, 5, 12, 40][n % 4] if card > 1 else [1, 9][n % 2]
                        yield {"scheme": scheme, "keys": [{"name": "k", "kind": kind, "card": card, "off": (off + n) % pool}],
                               "rows": rows, "pattern": ["full", "blocks"][n % 2], "nulls": n % 3 == 0,
                               "bundle": BUNDLES[n % 4], "unused": n % 2 == 0, "rgo_kind": rg, "rgo": rgo_for(rg, rows)}
    for scheme, kinds in (("hive", MULTI_KINDS), ("drill", MULTI_DRILL)):
        for a in kinds:
            for b in kinds:
                for pi, pattern in enumerate(("full", "diag")):
                    n += 1
                    if tier == "quick" and (n // 2) % 2 != pi:
                        continue
                    rg = ["none", "int", "list"][n % 3]
                    rows = [6, 13, 30][n % 3]
                    yield {"scheme": scheme,
                           "keys": [{"name": "ka", "kind": a, "card": 2 + n % 3, "off": n % 5},
                                    {"name": "kb", "kind": b, "card": 1 + n % 4, "off": (n // 2) % 5}],
                           "rows": rows, "pattern": pattern, "nulls": n % 4 == 0 and not _has_cat([a, b]),
                           "bundle": BUNDLES[n % 4],
                           "unused": n % 2 == 1, "rgo_kind": rg, "rgo": rgo_for(rg, rows)}
        triples = [(kinds[i % len(kinds)], kinds[(i * 3 + 1) % len(kinds)], kinds[(i * 7 + 2) % len(kinds)])
                   for i in range(len(kinds) * (2 if tier == "quick" else 6))]
        for tr in triples:
            for pattern in ("full", "diag", "blocks"):
                n += 1
                rg = ["none", "int", "list"][n % 3]
                rows = [10, 27, 60][n % 3]
                yield {"scheme": scheme,
                       "keys": [{"name": nm, "kind": kd, "card": 1 + (n + i) % 3, "off": (n + 2 * i) % 5}
                                for i, (nm, kd) in enumerate(zip(("p", "q", "r"), tr))],
                       "rows": rows, "pattern": pattern, "nulls": n % 5 == 0 and not _has_cat(tr),
                       "bundle": BUNDLES[n % 4], "unused": False, "rgo_kind": rg, "rgo": rgo_for(rg, rows)}
    # a row group in which every row has a null key (nothing to store from it), with / without a categorical key
    for scheme in ("hive", "drill"):
        for kinds in (("float64", "cat_str"), ("cat_str", "str_plain"), ("Int64", "cat_str", "bool"),
                      ("float64", "str_plain"), ("cat_str",), ("dt_ns", "Int64", "str_plain")):
            for rows, rgo in ((8, [0, 4]), (12, [0, 3, 6, 9]), (8, None)):
                names = ("p", "q", "r")[:len(kinds)]
                tail = [nm for nm, kd in zip(names, kinds) if kd in NULLABLE][0]
                yield {"scheme": scheme, "keys": [{"name": nm, "kind": kd, "card": 2, "off": 0} for nm, kd in zip(names, kinds)],
                       "rows": rows, "pattern": "full", "nulls": False, "null_tail_key": tail, "bundle": "V1", "unused": True,
                       "rgo_kind": "none" if rgo is None else "list", "rgo": rgo}


    # partition column names that CONTAIN one another (suffix / prefix / inner substring), both orders, hive layout: the key of a level
    # must be matched exactly, never as a substring of the path text; values differ between the columns (different pool offsets,
    # different kinds) so that a value taken from the wrong level shows
    for names in RELATED_NAMES:
        for order in (names, names[::-1]):
            for kinds in (("int64",) * len(order), ("str_plain", "int64", "str_plain")[:len(order)], ("int64", "str_num", "int64")[:len(order)]):
                for pattern in ("full", "diag"):
                    n += 1
                    rg = ["none", "int", "list"][n % 3]
                    rows = [6, 13][n % 2]
                    yield {"scheme": "hive",
                           "keys": [{"name": nm, "kind": kd, "card": 2 + (n + i) % 2, "off": (1 + 2 * i) % 5} for i, (nm, kd) in enumerate(zip(order, kinds))],
                           "rows": rows, "pattern": pattern, "nulls": False, "bundle": BUNDLES[n % 2], "unused": False,
                           "rgo_kind": rg, "rgo": rgo_for(rg, rows)}


    # partition column NAMES that are not identifiers (hyphen, space, dot, non-ASCII letters, leading digit, punctuation only, one
    # character): a directory level is `name=text` for ANY column name without '/' and '='; the name must come back unchanged
    for ni, names in enumerate(ODD_NAMES):
        for kinds in (("int64", "str_plain")[:len(names)], ("str_num", "int64")[:len(names)]):
            n += 1
            rg = ["none", "int", "list"][n % 3]
            rows = [6, 13][n % 2]
            yield {"scheme": "hive",
                   "keys": [{"name": nm, "kind": kd, "card": 2 + (n + i) % 2, "off": (1 + 2 * i) % 5} for i, (nm, kd) in enumerate(zip(names, kinds))],
                   "rows": rows, "pattern": ["full", "diag"][n % 2], "nulls": False, "bundle": BUNDLES[n % 2], "unused": False,
                   "rgo_kind": rg, "rgo": rgo_for(rg, rows)}

    # ROW INDEX WITH REPEATED LABELS: pd.concat of two frames without ignore_index, a constant index, a few scattered labels
    # (named index), an index equal to the first partition key; index dropped (write_index=False) and stored (True); the
    # multiset of rows must be preserved and every row must sit under its own key directory
    for scheme in ("hive", "drill"):
        for ri_i, ri in enumerate(("dup_concat", "constant", "dup_scattered", "equals_key")):
            for wi in (False, True):
                for rg in ("none", "int", "list"):
                    for ki, kinds in enumerate((("int64",), ("str_plain",), ("int64", "str_plain"), ("bool", "int64"))):
                        n += 1
                        if tier == "quick" and (ri_i + ki + int(wi) + ("none", "int", "list").index(rg)) % 2 and not (rg == "none" and not wi):
                            continue
                        rows = [8, 13, 30][n % 3]
                        yield {"scheme": scheme,
                               "keys": [{"name": nm, "kind": kd, "card": 2 + (n + i) % 2, "off": (n + i) % 3}
                                        for i, (nm, kd) in enumerate(zip(("p", "q"), kinds))],
                               "rows": rows, "pattern": ["full", "blocks", "diag"][n % 3], "nulls": False, "bundle": BUNDLES[n % 2],
                               "unused": False, "rgo_kind": rg, "rgo": rgo_for(rg, rows), "row_index": ri, "write_index": wi}


# names one of which is a suffix / prefix / inner substring of another (never a value-column name of the bundles V0, V1 used with them)
RELATED_NAMES = [("grid", "id"), ("ab", "b"), ("x", "xx"), ("year_month", "month"), ("kk", "k", "akkb")]


# column names with characters outside [a-zA-Z_0-9] (never '/' or '=', never a value-column name of the bundles V0, V1)
ODD_NAMES = [("sensor-id",), ("my key",), ("a.b",), ("r\u00e9gion",), ("1st",), ("\u00e9",), ("-",), ("k%",), ("\u65e5\u4ed8",), ("q",),
             ("sensor-id", "id"), ("my key", "key2"), ("x.y", "x-y"), ("\u00e9t\u00e9", "n")]


def name_chars(names):
    """which kinds of characters outside the ASCII word characters occur in the partition column names"""
    import re as _re2
    cls = set()
    for nm in names:
        for ch in nm:
            if _re2.fullmatch("[a-zA-Z_0-9]", ch):
                continue
            cls.add("non-ascii" if ord(ch) > 127 else {"-": "hyphen", " ": "space", ".": "dot"}.get(ch, "punct"))
        if nm[:1].isdigit():
            cls.add("leading-digit")
    return "+".join(sorted(cls)) or "word"


def name_relation(names):
    """how the partition column names relate as texts"""
    rel = set()
    for a in names:
        for b in names:
            if a != b and a in b:
                rel.add("suffix" if b.endswith(a) and not b.startswith(a) else "prefix" if b.startswith(a) and not b.endswith(a)
                        else "prefix+suffix" if b.startswith(a) else "inner")
    return "+".join(sorted(rel)) or "unrelated"


def _has_cat(kinds):
    return any(k.startswith("cat_") for k in kinds)


def _null_row_group_hazard(spec):
    """a row group consisting only of rows whose NON-categorical key is null, in a frame that also has a
    categorical key and at least two keys (pandas 3 groupby(observed=False) raises IndexError on it)"""
    kinds = [k["kind"] for k in spec["keys"]]
    tail = spec.get("null_tail_key")
    if not tail or spec["rgo"] is None or len(kinds) < 2 or not _has_cat(kinds):
        return False
    tail_kind = [k["kind"] for k in spec["keys"] if k["name"] == tail][0]
    return not tail_kind.startswith("cat_") and any(o >= spec["rows"] // 2 for o in spec["rgo"])


def features_of(spec):
    return {"scheme": spec["scheme"], "nkeys": len(spec["keys"]),
            "kinds": "+".join(k["kind"] for k in spec["keys"]),
            "cards": "x".join(str(min(k["card"], len(POOLS[k["kind"]]))) for k in spec["keys"]),
            "offs": "-".join(str(k["off"]) for k in spec["keys"]),
            "rows": spec["rows"], "pattern": spec["pattern"], "null_keys": bool(spec["nulls"]),
            "unused_categories": bool(spec["unused"]), "values": spec["bundle"], "rgo": spec["rgo_kind"],
            "null_tail": bool(spec.get("null_tail_key")),
            "all_null_row_group_with_categorical_key": _null_row_group_hazard(spec),
            "names": "+".join(k["name"] for k in spec["keys"]), "name_relation": name_relation([k["name"] for k in spec["keys"]]),
            "name_chars": name_chars([k["name"] for k in spec["keys"]]),
            "row_index": spec.get("row_index", "unique_range"), "write_index": bool(spec.get("write_index", False))}


DRILL_MIXED = [["007", "abc"], ["1", "x1", "2.5"], ["True", "maybe", "False"], ["2020-01-01", "someday", "7"],
               ["q", "5", "w", "6"]]

def _worker_main():
    """child process (plain `python -m runtime.c08_partitions`, PYTHONHASHSEED=0): jobs (JSON list of [index, spec]) on
    stdin; a line `B <i>` before and `E <i> <json what>` after every case, so that the parent can tell which case was
    running if this process dies in native code."""
    import traceback
    fp = import_fastparquet()
    out = sys.stdout
    for i, spec in json.load(sys.stdin):
        out.write(f"\nB {i}\n")
        out.flush()
        try:
            what = check_partitioned(fp, spec)
        except BaseException as e:      # noqa: any escape = failed contract (reported by the parent)
            tb = traceback.extract_tb(e.__traceback__)
            at = f"{os.path.basename(tb[-1].filename)}:{tb[-1].lineno} {tb[-1].name}" if tb else "?"
            what = f"{type(e).__name__}: {str(e)[:200]} @ {at}"
        out.write(f"\nE {i} {json.dumps(what)}\n")
        out.flush()


NOT_EVALUATED = "\x00not-evaluated"


def _run_chunk(indexed):
    res, todo, deaths = {}, list(indexed), 0
    while todo:
        r = subprocess.run([sys.executable, "-m", "runtime.c08_partitions"], input=json.dumps(todo), capture_output=True,
                           text=True, env=dict(os.environ, PYTHONHASHSEED="0"), timeout=1800,
                           cwd=os.path.dirname(os.path.dirname(os.path.abspath(__file__))))
        began = None
        for line in r.stdout.splitlines():
            if line.startswith("B "):
                began = int(line[2:])
            elif line.startswith("E "):
                _, i, payload = line.split(" ", 2)
                res[int(i)] = json.loads(payload)
                began = None
        if r.returncode == 0 and began is None and all(i in res for i, _ in todo):
            break
        if began is None:
            raise RuntimeError(f"c08_partitions worker failed rc={r.returncode}: {r.stderr[-500:]}")
        sig = f"signal {-r.returncode}" if r.returncode < 0 else f"exit code {r.returncode}"
        res[began] = f"child process died ({sig}) while this case was running: {r.stderr.strip()[-160:]}"
        deaths += 1
        todo = [(i, j) for i, j in todo if i not in res]
        if deaths >= 6:
            for i, _ in todo:
                res[i] = NOT_EVALUATED
            break
    return res


def run_specs(specs, nproc):
    indexed = list(enumerate(specs))
    with concurrent.futures.ThreadPoolExecutor(max_workers=nproc) as tex:
        parts = list(tex.map(_run_chunk, [indexed[i::nproc] for i in range(nproc)]))
    merged = {}
    for part in parts:
        merged.update(part)
    return [merged[i] for i in range(len(specs))]


def run_mixed(job):
    vals, seed = job
    spec = mixed_spec(vals)
    prog = program(f"check_partitioned(fastparquet, {spec!r})", {"str_mixed": vals})
    env = dict(os.environ, PYTHONHASHSEED=str(seed))
    try:
        r = subprocess.run([sys.executable, "-c", prog], capture_output=True, text=True, timeout=300, env=env)
    except subprocess.TimeoutExpired:
        return vals, seed, "child timed out"
    if r.returncode != 0:
        return vals, seed, "child failed: " + (r.stderr.strip().splitlines() or ["?"])[-1][:200]
    last = r.stdout.strip().splitlines()[-1]
    return vals, seed, None if last == "None" else last


def mixed_spec(vals):
    POOLS["str_mixed"] = vals
    return {"scheme": "drill", "keys": [{"name": "k", "kind": "str_mixed", "card": len(vals), "off": 0}],
            "rows": 3 * len(vals), "pattern": "full", "nulls": False, "bundle": "V1", "unused": False,
            "rgo_kind": "none", "rgo": None}


def mixed_snippet(vals, seeds):
    spec = mixed_spec(vals)
    prog = program(f"check_partitioned(fastparquet, {spec!r})", {"str_mixed": vals})
    return ("import os, subprocess, sys\n"
            f"PROG = {prog!r}\nVIOLATED = False\n"
            f"for seed in {list(seeds)!r}:\n"
            "    r = subprocess.run([sys.executable, '-c', PROG], capture_output=True, text=True,\n"
            "                       env=dict(os.environ, PYTHONHASHSEED=str(seed)))\n"
            "    last = (r.stdout.strip().splitlines() or ['?'])[-1]\n"
            "    print('PYTHONHASHSEED', seed, '->', r.returncode, last, r.stderr[-200:])\n"
            "    VIOLATED = VIOLATED or r.returncode != 0 or last != 'None'\n")


# ------------------------------------------------------------------------------------------------
def run_bounded(ctx):
    fp = import_fastparquet()
    from vlib.common import REPO
    GV, GP, GW, GM = "c08.value", "c08.paths", "c08.write_read", "c08.drill_mixed"
    ctx.bounded_group(GV, rule="every value of the per-kind pools (ints incl. int64/uint64 extremes, floats incl. 0.7, "
                      "exponents, inf, -0.0, denormal, float32; bools; nullable Int64/boolean; timestamps s/ms/us/ns "
                      "incl. extremes, tz-aware; text: plain, numeric-looking ('007','1e5','.5',...), 'True','now','today',"
                      "'', unicode, punctuation, backslash; categoricals of str / int): "
                      "val_to_num(path_string(v), get_column_metadata(column)) == v and same kind")
    ctx.bounded_group(GP, rule="paths_to_cats over oracle-spelled hive/drill paths for 1..2 kinds x 1..2 part files per "
                      "directory, partition_columns block from get_column_metadata: scheme, key names, value sets by kind")
    ctx.bounded_group(GW, rule="fastparquet.write(partition_on) + directory tree + each part file decoded alone + "
                      "ParquetFile(dir).to_pandas()/.cats; 1 key: 23 kinds x {hive,drill} x cardinality {1,2,5} x "
                      "row_group_offsets {None,int,list}; 2 keys: 10x10 kinds x {all combinations, diagonal only}; "
                      "3 keys: 20 triples x 3 patterns; rows 1..60, null keys, unused categories, 4 value-column bundles "
                      "(int, float+NaN, str+None, bool, datetime, categorical, Int64, uint8); partition column NAMES containing one another "
                      "(grid+id, ab+b, x+xx, year_month+month, kk+k+akkb: suffix / prefix / inner substring) in both orders, hive, 3 kind "
                      "combinations x 2 patterns, values differing between the columns; partition column names that are not identifiers (hyphen, space, dot, non-ASCII letters, "
                      "leading digit, punctuation only, one character: 14 name sets x 2 kind combinations, hive); plus frames whose ROW INDEX HAS REPEATED LABELS (concat without ignore_index / constant / scattered named / equal to the first key) x write_index False|True x row_group_offsets none/int/list x 4 key tuples x hive|drill")
    ctx.bounded_group(GM, rule="drill levels mixing re-typable and plain text, 5 value sets x PYTHONHASHSEED 0..3 (thorough 0..7) in child "
                      "processes; the case holds only if it holds under every hash seed")

    # ---- (a) value plumbing ---------------------------------------------------------------------
    value_pools = dict(POOLS)
    for kind, pool in value_pools.items():
        for j, v in enumerate(pool):
            F = {"kinds": kind, "scheme": "hive", "index": j, "text": repr(v)[:40]}
            with Case(ctx, GV, F, snippet=snippet(f"check_value(fastparquet, {kind!r}, {j})"),
                      contract="val_to_num(path_string(v), meta(column)) == v, kind preserved") as c:
                what = check_value(fp, kind, j)
                if what:
                    c.fail(what)
    # the empty string: legal as a value of the plumbing (hive segment `k=`)
    POOLS["str_empty"] = ["", "a"]
    for j in range(2):
        with Case(ctx, GV, {"kinds": "str_empty", "scheme": "hive", "index": j, "text": repr(POOLS["str_empty"][j])},
                  snippet=snippet(f"check_value(fastparquet, 'str_empty', {j})", {"str_empty": ["", "a"]}),
                  contract="val_to_num(path_string(v), meta(column)) == v, kind preserved") as c:
            what = check_value(fp, "str_empty", j)
            if what:
                c.fail(what)

    # ---- (a2) paths_to_cats ---------------------------------------------------------------------
    path_kinds = [k for k in SINGLE_KINDS if k != "str_backslash"]
    for scheme in ("hive", "drill"):
        singles = [(k,) for k in path_kinds if scheme == "hive" or k in DRILL_OK]
        pairs = [(a, b) for a in (MULTI_KINDS if scheme == "hive" else MULTI_DRILL)
                 for b in (MULTI_KINDS if scheme == "hive" else MULTI_DRILL)]
        for kinds in singles + pairs:
            for nparts in (1, 2):
                F = {"scheme": scheme, "kinds": "+".join(kinds), "parts_per_dir": nparts}
                with Case(ctx, GP, F, snippet=snippet(f"check_paths(fastparquet, {list(kinds)!r}, {scheme!r}, {nparts})"),
                          contract="paths_to_cats(paths, partition_meta) == (scheme, {name: values in use, by kind})") as c:
                    what = check_paths(fp, list(kinds), scheme, nparts)
                    if what:
                        c.fail(what)

    # ---- (b) write / directory tree / read ------------------------------------------------------
    specs = list(enumerate_write_cases(ctx.tier))
    hash_seeds = range(4) if ctx.tier == "quick" else range(8)
    mixed_jobs = [(vals, seed) for vals in DRILL_MIXED for seed in hash_seeds]
    ncpu = os.cpu_count() or 2
    with concurrent.futures.ThreadPoolExecutor(max_workers=4) as tex:
        futs = [tex.submit(run_mixed, j) for j in mixed_jobs]
        results = run_specs(specs, max(2, min(12, ncpu - 4)))
        mixed_results = [f.result() for f in futs]
    skipped = sum(1 for w in results if w == NOT_EVALUATED)
    if skipped:
        ctx.note(f"c08: {skipped} cases not evaluated because worker processes kept dying (each death is a failed case)")
    for spec, what in zip(specs, results):
        if what == NOT_EVALUATED:
            continue
        clean = {k: v for k, v in spec.items() if k != "rgo_kind"}
        with Case(ctx, GW, features_of(spec), snippet=snippet(f"check_partitioned(fastparquet, {clean!r})"),
                  nontrivial=spec["rows"] > 0,
                  contract="rows with non-null keys: stored once, in the directory naming their key values; "
                           "to_pandas() = same multiset, hive: partition columns by name, value and kind; "
                           "drill: dir0.. carry the directory text") as c:
            if what:
                c.fail(what)
    for vals in DRILL_MIXED:
        per_seed = {seed: what for v, seed, what in mixed_results if v == vals}
        bad = {s: w for s, w in per_seed.items() if w}
        F = {"scheme": "drill", "level_values": "|".join(vals), "mixes_retypable_and_plain_text": True}
        with Case(ctx, GM, F, snippet=mixed_snippet(vals, hash_seeds),
                  contract="same as c08.write_read, under every PYTHONHASHSEED in 0..3 (thorough: 0..7)") as c:
            if bad:
                s0 = sorted(bad)[0]
                c.fail(f"fails under PYTHONHASHSEED in {sorted(bad)}; seed {s0}: {bad[s0]}")


if __name__ == "__main__":
    _worker_main()
