"""Bounded stand-in layer (DESIGN 3.9): run-time contracts (deal) on the REAL functions of /repo,
evaluated over explicitly enumerated inputs with a stated bound.  Labelled bounded in every
evidence file and never counted as proved.

A bounded module exposes   run_bounded(ctx)   and uses:

    ctx.bounded_group(group, rule)                       once per group of cases
    with Case(ctx, group, features, snippet=...) as c:   one enumerated case
        ... call the contract-wrapped real function; a deal.ContractError / AssertionError
            inside the block is a failed contract ...

`features` is a flat dict of enumerator features (dtype, rows, nulls, page_version, ...).  It is
(a) the signature that makes a case distinct, (b) what a KNOWN_FINDINGS.jsonl record of kind
'bounded' is matched against (exact feature values, lists of values, or {'re': ...}), and
(c) written into the replay file together with a runnable snippet.

Exceptions: deal.ContractError, AssertionError -> contract failed.  Any other exception escaping
the block is *also* a failed case unless the block declared it acceptable via c.ok_if_raises(...)
(e.g. "a write that raises satisfies the round-trip contract").
"""
import contextlib
import json
import os
import shutil
import sys
import tempfile
import traceback

import deal

from vlib.common import REPO

sys.path.insert(0, REPO) if REPO not in sys.path else None


class ContractFailed(Exception):
    pass


def scratch_dir(prefix="verif-"):
    """Scratch directory outside /repo and /verif; caller removes it (use `with tmpdir()`)."""
    return tempfile.mkdtemp(prefix=prefix, dir=os.environ.get("VERIF_SCRATCH", tempfile.gettempdir()))


@contextlib.contextmanager
def tmpdir(prefix="verif-"):
    d = scratch_dir(prefix)
    try:
        yield d
    finally:
        shutil.rmtree(d, ignore_errors=True)


def signature(features):
    return "|".join(f"{k}={features[k]}" for k in sorted(features))


class Case:
    """One enumerated case of a bounded contract check."""

    def __init__(self, ctx, group, features, snippet=None, nontrivial=True, contract=None):
        self.ctx, self.group, self.features = ctx, group, dict(features)
        self.snippet, self.nontrivial, self.contract = snippet, nontrivial, contract
        self.acceptable = ()
        self.failed = False

    def ok_if_raises(self, *exc_types):
        self.acceptable = exc_types

    def __enter__(self):
        return self

    def fail(self, what):
        raise ContractFailed(what)

    def __exit__(self, et, ev, tb):
        ctx = self.ctx
        sig = signature(self.features)
        sample = {"group": self.group, "features": self.features}
        ctx.bounded_case(self.group, sig, self.nontrivial, sample)
        if et is None:
            return False
        if self.acceptable and issubclass(et, self.acceptable):
            return True
        if issubclass(et, (KeyboardInterrupt, SystemExit, MemoryError)):
            return False
        self.failed = True
        ctx.bounded_groups[self.group]["failed"] += 1
        what = f"{et.__name__}: {str(ev)[:300]}"
        rec = ctx.match_known_signature(self.group, self.features)
        if rec is not None:
            ctx.known_finding(rec["id"])
            return True
        name = f"{self.group}[{sig}]"
        if any(v[0].startswith(self.group + "[") for v in ctx.violations) and \
                sum(1 for v in ctx.violations if v[0].startswith(self.group + "[")) >= 5:
            # keep the report readable: at most 5 VIOLATION lines per group, count the rest
            ctx.note(f"further failing case suppressed from output: {name}: {what}")
            ctx.violations.append((name, None, True))
            return True
        ctx.violation(name, {
            "kind": "bounded-contract", "group": self.group, "contract": self.contract,
            "features": self.features, "failure": what,
            "traceback": "".join(traceback.format_exception(et, ev, tb))[-3000:],
            "snippet": self.snippet,
        }, confirmed=True, what=what)
        return True


def counted(fn, counter, key):
    """Wrap the real function so that contract evaluations are counted (zero evaluations = exit 3)."""
    def w(*a, **k):
        counter[key] = counter.get(key, 0) + 1
        return fn(*a, **k)
    w.__wrapped__ = fn
    w.__name__ = getattr(fn, "__name__", "wrapped")
    return w


def import_fastparquet():
    """Import fastparquet from the CURRENT working tree of /repo (never a cached copy)."""
    for m in [m for m in sys.modules if m == "fastparquet" or m.startswith("fastparquet.")]:
        del sys.modules[m]
    if REPO not in sys.path:
        sys.path.insert(0, REPO)
    import fastparquet
    assert os.path.abspath(fastparquet.__file__).startswith(os.path.abspath(REPO)), fastparquet.__file__
    return fastparquet


# ---- process pools that survive a worker killed by the code under test ---------------------------------------------------------
class WorkerDied:
    """placeholder result of robust_map for a task whose process died (segfault / abort inside the real library): that is an
    observation about the code under test (the interpreter must never die), not a failure of the checker"""

    def __init__(self, task, exitcode):
        self.task, self.exitcode = task, exitcode

    def what(self):
        sig = -self.exitcode if isinstance(self.exitcode, int) and self.exitcode < 0 else None
        return "the interpreter DIED (%s) while the real library ran this batch: %s" % (
            "signal %d" % sig if sig else "exit code %r" % (self.exitcode,), repr(self.task)[:160])


def _robust_child(fn, task, conn):
    try:
        conn.send(("ok", fn(task)))
    except BaseException as e:      # an exception of the worker function is the caller's business, as with Executor.map
        conn.send(("exc", "%s: %s\n%s" % (type(e).__name__, e, traceback.format_exc()[-1500:])))
    finally:
        conn.close()


def _run_alone(fn, task):
    import multiprocessing as mp
    ctx = mp.get_context("fork")
    parent, child = ctx.Pipe(duplex=False)
    pr = ctx.Process(target=_robust_child, args=(fn, task, child))
    pr.start()
    child.close()
    msg = None
    try:
        msg = parent.recv()
    except EOFError:
        pass
    pr.join()
    if msg is None:
        return WorkerDied(task, pr.exitcode)
    if msg[0] == "exc":
        raise RuntimeError("worker raised: " + msg[1])
    return msg[1]


def robust_map(fn, tasks, max_workers, **pool_kw):
    """results of fn(task) in task order, like ProcessPoolExecutor.map; if the pool breaks because a worker process was killed, every
    task without a result is re-run ALONE in a fresh process and the ones that kill their process get a WorkerDied placeholder"""
    import concurrent.futures as cf
    from concurrent.futures.process import BrokenProcessPool
    tasks = list(tasks)
    out = [None] * len(tasks)
    have = [False] * len(tasks)
    try:
        with cf.ProcessPoolExecutor(max_workers=max_workers, **pool_kw) as ex:
            futs = [ex.submit(fn, t) for t in tasks]
            for i, f in enumerate(futs):
                try:
                    out[i] = f.result()
                    have[i] = True
                except BrokenProcessPool:
                    pass
    except BrokenProcessPool:
        pass
    for i, t in enumerate(tasks):
        if not have[i]:
            out[i] = _run_alone(fn, t)
    return out
