"""C01 bounded stand-in: write -> read round trip under every write option.

Contract (deal.ensure on a wrapper of the real `fastparquet.write`):

    after write(path, df, **options) returns,
    canon(ParquetFile(path).to_pandas()) == canon(df)

where `canon` applies ONLY the canonicalisations the property statement documents:
  * text columns (str / string / object holding str) may come back as object strings;
  * an index that was not written is regenerated as a range index (the recorded RangeIndex when
    write_index=None, 0..n-1 when write_index=False); an unnamed written index may come back named
    'index' / 'level_i' (the name the writer had to give the column);
  * everything else is compared exactly: column names and order, row count, per-cell value or
    missingness, dtype (datetime unit and tz, timedelta unit, numeric width and signedness, nullable
    extension dtype), categorical labels + order flag + codes.
A write that raises satisfies the contract ("or else the write raises"); a read that raises, or data
that differs, violates it.

The oracle is plain pandas/numpy on the input frame; no fastparquet helper takes part in it.

Additional class (feature `read`): categorical columns whose CATEGORIES are booleans (pd.Categorical([True, False,
..]); dtypes cat[bool], cat[bool,unsorted] = categories [True, False], cat[bool,ordered], cat[bool,one] = the single
category True) - the dictionary page is of physical type BOOLEAN - over all row counts x null patterns x option
tuples (v1 / v2 pages, 1..3 pages, codecs, has_nulls, ...), read back twice: read='default' (as categorical, the
contract above) and read='categories=[]' (to_pandas(categories=[]): the column de-categorised - every cell must be
the boolean label of the written cell or null where the written cell is null; dtype bool / boolean / object).

Additional class (dtypes `<str|string|object_str|bytes|cat[str]|cat[str,unsorted]>+nul`): text cells (and bytes
cells, and the LABELS of a categorical) holding NUL characters at the end (one, several, only NULs), at the start,
in the middle, next to non-ASCII, empty cells and leading / trailing blanks - 'ab' and 'ab\x00' are different cells
and different labels - over every (rows, nulls) shape x every option tuple; compared exactly, cell by cell.
"""
import os
import shutil
import time
import traceback
import warnings

import deal
import numpy as np
import pandas as pd

from runtime import datasets as D
from runtime.harness import Case, import_fastparquet, tmpdir

G = "c01.roundtrip"
CONTRACT = ("ensure(write(path, df, **options)): canon(ParquetFile(path).to_pandas()) == canon(df); "
            "a raising write is accepted, a raising read is not")
RULE = ("single-column frames over {n_dtypes} dtypes of the quantifier x row counts {rows} (large counts only for "
        "{big} in quick) x null patterns none/some/all/first/last where the dtype can hold nulls, each paired with "
        "option tuples of a {strength}-wise covering array ({n_opts} tuples) over compression x row_group_offsets x "
        "has_nulls x pages(1,2,3 real pages via MAX_PAGE_SIZE) x DATAPAGE_VERSION x stats x times x "
        "object_encoding x file_scheme x write_index so that every dtype meets every option tuple and every "
        "(dtype,rows,nulls) shape is used; plus multi-column mixed frames x every option tuple and frames with "
        "non-range/named/str/datetime/multi/offset-range indexes x write_index values; plus categoricals whose CATEGORIES "
        "are booleans (cat[bool] / categories [True, False] / ordered / single category) x every option tuple and every "
        "(rows, nulls) shape x read {{default, categories=[]}} (feature `read`); plus text / bytes cells and string category labels with "
        "NUL characters at the end / start / middle, several trailing NULs, only NULs, empty cells, blanks (dtypes "
        "'<str|string|object_str|bytes|cat[str]|cat[str,unsorted]>+nul') x every option tuple and shape. BOUND: rows <= 8193, "
        "<= 8 columns, the listed dtypes/values only. A case is distinct by (dtype, rows, nulls, index, option "
        "tuple, real page count); non-trivial when rows > 0 and the write did not raise.")


GI = "c01.roundtrip.index"
CONTRACT_INDEX = ("ensure(write(path, df, **options)): the frame read back has the same row index when one was "
                  "written (values, level count, names), else the regenerated range index")
RULE_INDEX = ("the index clause of the same cases as c01.roundtrip (evaluated whenever the write returned and the "
              "read returned a frame). Non-trivial when an index column was really stored: write_index=True, or "
              "write_index=None with a non-range index (int64 / named / str / datetime / 2-level multi).")


# ---- frames of the classes that runtime.datasets does not know ------------------------------------------
NUL = "+nul"
NUL_TEXT_DTYPES = [d + NUL for d in ("str", "string", "object_str", "bytes", "cat[str]", "cat[str,unsorted]")]
NUL_POOL = ["ab\x00", "ab", "\x00lead", "mid\x00dle", "tail\x00\x00", "", "trail ", "\x00", "é\x00", " ", "\x00\x00\x00",
            "a\x00b\x00", "中\x00文", "plain"]


def base_dtype(dt):
    return dt[:-len(NUL)] if dt.endswith(NUL) else dt


def nul_series(dtype, n, nulls):
    base = base_dtype(dtype)
    cells = [NUL_POOL[(k * 3 + k // len(NUL_POOL)) % len(NUL_POOL)] for k in range(n)]
    if base.startswith("cat["):
        labels = sorted(NUL_POOL[:7], key=lambda v: v.encode("utf8"))       # 'ab' and 'ab\x00' are two labels
        if "unsorted" in base:
            labels = labels[2:] + labels[:2][::-1]
        codes = np.array([(i * 7 + (i >> 2)) % len(labels) for i in range(n)], dtype="int64")
        s = pd.Series(pd.Categorical.from_codes(codes, categories=pd.Index(labels, dtype=object)))
    elif base == "bytes":
        s = pd.Series([c.encode("utf8") for c in cells], dtype=object)
    else:
        s = pd.Series(cells, dtype={"object_str": object}.get(base, base))
    m = D.null_mask(n, nulls)
    if m.any():
        if base in ("object_str", "bytes"):
            s = s.copy()
            s[m] = None
        else:
            s = s.mask(m)
    s.name = "x"
    return s


def frame_of(features):
    """the input frame of a case (runtime.datasets, or one of the local classes)"""
    if features["dtype"].endswith(NUL):
        return pd.DataFrame({"x": nul_series(features["dtype"], features["rows"], features.get("nulls", "none"))})
    return D.frame_from_features(features)


def derived(features):
    return D.derived_features(dict(features, dtype=base_dtype(features["dtype"])))


# ---- oracle: comparison under the documented canonical forms -----------------------------------------
def _is_text_dtype(dt):
    return isinstance(dt, pd.StringDtype) or str(dt) in ("str", "string")


def _isna_obj(v):
    if v is None or v is pd.NA or v is pd.NaT:
        return True
    return isinstance(v, float) and v != v


def _obj_kind(values):
    for v in values:
        if _isna_obj(v):
            continue
        if isinstance(v, str):
            return "text"
        if isinstance(v, bytes):
            return "bytes"
        return "json"
    return "empty"


def same_values(a, b, what):
    """a = original (Series or Index), b = read back.  Returns None or a description of the difference."""
    a = pd.Series(a).reset_index(drop=True)
    b = pd.Series(b).reset_index(drop=True)
    if len(a) != len(b):
        return f"{what}: {len(b)} rows instead of {len(a)}"
    da, db = a.dtype, b.dtype
    if isinstance(da, pd.CategoricalDtype):
        if not isinstance(db, pd.CategoricalDtype):
            return f"{what}: categorical came back as {db}"
        if bool(da.ordered) != bool(db.ordered):
            return f"{what}: categorical order flag {db.ordered} instead of {da.ordered}"
        r = same_values(da.categories, db.categories, what + " category labels")
        if r:
            return r
        ca, cb = np.asarray(a.cat.codes, dtype="int64"), np.asarray(b.cat.codes, dtype="int64")
        if not np.array_equal(ca, cb):
            i = int(np.flatnonzero(ca != cb)[0])
            return f"{what}: categorical codes differ first at row {i}: {cb[i]} instead of {ca[i]}"
        return None
    if _is_text_dtype(da) or (da == object and _obj_kind(a) in ("text", "empty") and not isinstance(db, pd.CategoricalDtype)):
        if da == object and _obj_kind(a) == "empty":
            # all-null / empty object column: object (or text) dtype holding only nulls
            if not (db == object or _is_text_dtype(db)):
                return f"{what}: object column came back with dtype {db}"
            if not all(_isna_obj(v) for v in b):
                return f"{what}: all-null object column came back with values"
            return None
        if not (db == object or db == da or _is_text_dtype(db)):
            return f"{what}: text came back with dtype {db}"
        for i, (x, y) in enumerate(zip(a, b)):
            nx, ny = _isna_obj(x), _isna_obj(y)
            if nx != ny:
                return f"{what}: missingness differs at row {i}: {y!r} instead of {x!r}"
            if not nx and not (isinstance(y, str) and x == y):
                return f"{what}: value differs at row {i}: {y!r} instead of {x!r}"
        return None
    if da == object:
        if db != object:
            return f"{what}: object column came back with dtype {db}"
        for i, (x, y) in enumerate(zip(a, b)):
            nx, ny = _isna_obj(x), _isna_obj(y)
            if nx != ny:
                return f"{what}: missingness differs at row {i}: {y!r} instead of {x!r}"
            if not nx and not (type(x) is type(y) and x == y):
                return f"{what}: value differs at row {i}: {y!r} instead of {x!r}"
        return None
    # everything else: exact dtype
    if isinstance(da, pd.DatetimeTZDtype) or isinstance(db, pd.DatetimeTZDtype):
        if not (isinstance(da, pd.DatetimeTZDtype) and isinstance(db, pd.DatetimeTZDtype)
                and da.unit == db.unit and str(da.tz) == str(db.tz)):
            return f"{what}: dtype {db} instead of {da}"
        ia = np.asarray(a.dt.tz_convert("UTC").dt.tz_localize(None).to_numpy()).view("int64")
        ib = np.asarray(b.dt.tz_convert("UTC").dt.tz_localize(None).to_numpy()).view("int64")
    elif da != db:
        return f"{what}: dtype {db} instead of {da}"
    elif da.kind in "mM":
        ia, ib = a.to_numpy().view("int64"), b.to_numpy().view("int64")
    elif isinstance(da, np.dtype) and da.kind == "f":
        va, vb = a.to_numpy(), b.to_numpy()
        na, nb = np.isnan(va), np.isnan(vb)
        if not np.array_equal(na, nb):
            i = int(np.flatnonzero(na != nb)[0])
            return f"{what}: missingness differs at row {i}: {vb[i]!r} instead of {va[i]!r}"
        ia = np.where(na, 0, va).view(f"u{da.itemsize}")        # bit patterns: also -0.0 vs 0.0
        ib = np.where(nb, 0, vb).view(f"u{da.itemsize}")
    elif isinstance(da, np.dtype):
        ia, ib = a.to_numpy(), b.to_numpy()
    else:
        # pandas masked extension dtypes (Int*/UInt*/boolean)
        ma, mb = np.asarray(a.isna()), np.asarray(b.isna())
        if not np.array_equal(ma, mb):
            i = int(np.flatnonzero(ma != mb)[0])
            return f"{what}: missingness differs at row {i}"
        base = da.numpy_dtype
        ia = a.fillna(base.type(0)).to_numpy(dtype=base)
        ib = b.fillna(base.type(0)).to_numpy(dtype=base)
    if not np.array_equal(ia, ib):
        i = int(np.flatnonzero(ia != ib)[0])
        return f"{what}: value differs at row {i}: {b.iloc[i]!r} instead of {a.iloc[i]!r}"
    return None


def index_written(df, write_index):
    return bool(write_index) or (write_index is None and not isinstance(df.index, pd.RangeIndex))


def cells_mismatch(df, out):
    """Clause 1: column names and order, row count, per-cell value/missingness, dtypes."""
    if [str(c) for c in out.columns] != [str(c) for c in df.columns]:
        return f"column names/order {list(out.columns)!r} instead of {list(df.columns)!r}"
    if len(out) != len(df):
        return f"{len(out)} rows instead of {len(df)}"
    for c in df.columns:
        r = same_values(df[c], out[c], f"column {c!r}")
        if r:
            return r
    return None


def _level_values(index, lv):
    """Values of one index level without trusting the object (a corrupt MultiIndex can crash pandas)."""
    if not isinstance(index, pd.MultiIndex):
        return pd.Series(index), None
    codes = np.asarray(index.codes[lv])
    level = index.levels[lv]
    if len(codes) and (codes.max() >= len(level) or codes.min() < -1):
        return None, f"corrupt MultiIndex: level {lv} has {len(level)} labels but codes up to {codes.max()}"
    return pd.Series(level.take(codes)) if len(codes) else pd.Series(level[:0]), None


def index_mismatch(df, out, write_index):
    """Clause 2: the same row index when one was written; otherwise the range index is regenerated."""
    if len(out.index) != len(df.index):
        return f"index has {len(out.index)} entries instead of {len(df.index)}"
    if index_written(df, write_index):
        if out.index.nlevels != df.index.nlevels:
            return f"index has {out.index.nlevels} levels instead of {df.index.nlevels}"
        for lv in range(df.index.nlevels):
            want, got = df.index.names[lv], out.index.names[lv]
            default = "index" if df.index.nlevels == 1 else f"level_{lv}"
            if not (got == want or (want is None and got in (None, default))):
                return f"index name {got!r} instead of {want!r}"
            a, _ = _level_values(df.index, lv)
            b, bad = _level_values(out.index, lv)
            if bad:
                return bad
            r = same_values(a, b, f"index level {lv}")
            if r:
                return r
    else:
        want = np.arange(len(df)) if write_index is False else np.asarray(df.index)
        if out.index.nlevels != 1:
            return f"regenerated index has {out.index.nlevels} levels"
        got = np.asarray(out.index)
        if got.dtype.kind not in "iu" or not np.array_equal(got, want):
            return f"regenerated range index {list(got[:5])!r}.. instead of {list(want[:5])!r}.."
        if write_index is None and out.index.name != df.index.name:
            return f"index name {out.index.name!r} instead of {df.index.name!r}"
    return None


def decat_mismatch(df, out):
    """Clause 1 for a read with categories=[]: categorical input columns come back as their VALUES (label of every
    cell, null where the cell is null); other columns as in cells_mismatch."""
    if [str(c) for c in out.columns] != [str(c) for c in df.columns]:
        return f"column names/order {list(out.columns)!r} instead of {list(df.columns)!r}"
    if len(out) != len(df):
        return f"{len(out)} rows instead of {len(df)}"
    for c in df.columns:
        if not isinstance(df[c].dtype, pd.CategoricalDtype):
            r = same_values(df[c], out[c], f"column {c!r}")
            if r:
                return r
            continue
        if isinstance(out[c].dtype, pd.CategoricalDtype):
            return f"column {c!r}: read with categories=[] but came back categorical"
        want = list(df[c].astype(object))
        try:
            got = list(out[c].astype(object))
        except Exception as e:
            return f"column {c!r}: values cannot be inspected: {type(e).__name__}: {e}"
        for i, (x, y) in enumerate(zip(want, got)):
            nx, ny = _isna_obj(x), _isna_obj(y)
            if nx != ny:
                return f"column {c!r} (categories=[]): missingness differs at row {i}: {y!r} instead of {x!r}"
            if not nx and not (type(x) is type(y) or isinstance(y, (bool, np.bool_)) == isinstance(x, (bool, np.bool_))) or \
                    (not nx and not (y == x)):
                return f"column {c!r} (categories=[]): value differs at row {i}: {y!r} instead of {x!r}"
    return None


def read_back(fp, path, features):
    """the read of the case: default, or de-categorised"""
    pf = fp.ParquetFile(path)
    return pf, (lambda: pf.to_pandas(categories=[])) if features.get("read") == "categories=[]" else pf.to_pandas


def case_mismatch(df, out, write_index, features):
    if features.get("read") == "categories=[]":
        return decat_mismatch(df, out), index_mismatch(df, out, write_index)
    return roundtrip_mismatch(df, out, write_index)


def roundtrip_mismatch(df, out, write_index):
    """(cells clause, index clause): each None when `out` equals `df` under the documented canonical
    forms, else what differs."""
    return cells_mismatch(df, out), index_mismatch(df, out, write_index)


# ---- the contract-wrapped real function ---------------------------------------------------------------
def checked_write_factory(fp, verdict, features=None):
    """deal.ensure on a wrapper of the real fastparquet.write (looked up at call time).  The
    post-condition evaluates both clauses and leaves the per-clause verdicts in `verdict`."""

    def post(_):
        verdict["evaluations"] = verdict.get("evaluations", 0) + 1
        try:
            pf, read = read_back(fp, _.path, features or {})
            verdict["pages"] = D.data_pages(pf)
            verdict["chunk_pages"] = D.chunk_pages(pf)
            D.poison_heap(len(_.df))
            out = read()
        except Exception as e:       # a read that raises violates the contract
            verdict["cells"] = f"read raised {type(e).__name__}: {str(e)[:200]}"
            return verdict["cells"]
        verdict["cells"], verdict["index"] = case_mismatch(_.df, out, _.options.get("write_index"), features or {})
        bad = [v for v in (verdict["cells"], verdict["index"]) if v]
        return True if not bad else "; ".join(bad)

    @deal.ensure(post)
    def checked_write(path, df, options):
        fp.write(path, df, **options)

    return checked_write


def run_case(fp, features, scratch):
    """Execute one case.  -> dict(status in ok|write_raised|fail, cells, index, what, pages, evaluations);
    cells / index = None (clause holds) or what differs."""
    df = frame_of(features)
    kwargs, globs = D.bind_options(features, df)
    path = os.path.join(scratch, "t.parq")
    verdict = {}
    res = {"status": "ok", "what": "", "pages": 1 if globs.get("MAX_PAGE_SIZE") is None else features["pages"]}
    try:
        with warnings.catch_warnings():
            warnings.simplefilter("ignore")
            with D.writer_globals(fp, **globs):
                checked_write_factory(fp, verdict, features)(path, df, kwargs)
    except deal.PostContractError as e:
        res.update(status="fail", what=str(e.message if getattr(e, "message", None) else e)[:400])
    except Exception as e:
        res.update(status="write_raised", what=f"{type(e).__name__}: {str(e)[:120]}")
    finally:
        if os.path.isdir(path):
            shutil.rmtree(path, ignore_errors=True)
        elif os.path.exists(path):
            os.remove(path)
    kinds = derived(features)["kinds"].split(",")
    res["layout"] = D.layout_feature(df, kwargs, globs, kinds)
    if "pages" in verdict:
        res["pages"] = D.pages_class(verdict["pages"])
        model = {c: [len(p) for p in ch] for c, ch in D.page_layout(df, kwargs, globs).items()}
        real = {c: v for c, v in verdict["chunk_pages"].items() if c in model}
        if real != model and len(df):
            res["layout"] = "model-mismatch"
    res["evaluations"] = verdict.get("evaluations", 0)
    res["cells"], res["index"] = verdict.get("cells"), verdict.get("index")
    return res


# ---- enumeration --------------------------------------------------------------------------------------
def enumerate_cases(tier, seed=0):
    """List of feature dicts (frame features + option features).  Independent of the seed."""
    opts = D.option_features(tier)
    specs = D.frame_specs(tier)
    cases = []
    single = [s for s in specs if s["index"] == "range" and s["dtype"] not in D.MIXED]
    by_dtype = {}
    for s in single:
        by_dtype.setdefault(s["dtype"], []).append(s)
    for di, (dtype, shapes) in enumerate(by_dtype.items()):
        roomy = [s for s in shapes if s["rows"] >= 7]
        seen = set()

        def add(s, o):
            key = (s["rows"], s["nulls"], tuple(sorted((k, str(v)) for k, v in o.items())))
            if key not in seen:
                seen.add(key)
                cases.append({**s, **o})
        # (a) every option tuple meets this dtype; tuples that ask for >1 page get a shape with enough rows
        for k, o in enumerate(opts):
            pool = roomy if (o["pages"] > 1 or o["rgo"] in ("int", "list")) and roomy else shapes
            add(pool[(k * 7 + di) % len(pool)], o)
        # (b) every shape is used, option tuples in rotation (two per shape in quick, four in thorough)
        reps = 2 if tier == "quick" else 4
        for k, s in enumerate(shapes):
            for r in range(reps):
                add(s, opts[(k * reps + r + 3 * di) % len(opts)])
    # categoricals whose categories are booleans: every option tuple, every shape, both read modes
    rows = D.ROWS if tier == "thorough" else D.SMALL_ROWS + [8193]
    for di, dtype in enumerate(D.BOOL_CATEGORICALS):
        shapes = [{"dtype": dtype, "rows": n, "nulls": p, "index": "range"} for n, p in D._single_shapes(dtype, rows)]
        roomy = [s for s in shapes if s["rows"] >= 7]
        for k, o in enumerate(opts):
            pool = roomy if (o["pages"] > 1 or o["rgo"] in ("int", "list")) else shapes
            for r, read in enumerate(("default", "categories=[]")):
                cases.append({**pool[(k * 7 + di + 3 * r) % len(pool)], **o, "read": read})
        for k, s in enumerate(shapes):
            for r, read in enumerate(("default", "categories=[]")):
                cases.append({**s, **opts[(2 * k + r + 3 * di) % len(opts)], "read": read})
    # text / bytes cells and categorical labels with NUL characters, empty cells, blanks
    nrows = D.SMALL_ROWS if tier == "quick" else D.ROWS
    for di, dtype in enumerate(NUL_TEXT_DTYPES):
        shapes = [{"dtype": dtype, "rows": n, "nulls": p, "index": "range"}
                  for n, p in D._single_shapes(base_dtype(dtype), nrows)]
        roomy = [s for s in shapes if s["rows"] >= 7]
        for k, o in enumerate(opts):
            pool = roomy if (o["pages"] > 1 or o["rgo"] in ("int", "list")) else shapes
            cases.append({**pool[(k * 7 + di) % len(pool)], **o})
        for k, s in enumerate(shapes):
            for r in range(2):
                cases.append({**s, **opts[(2 * k + r + 3 * di) % len(opts)]})
    for s in specs:
        if s["dtype"] in D.MIXED and s["index"] == "range":
            for o in opts:
                cases.append({**s, **o})
    base = dict(D.DEFAULT_OPTIONS)
    for k, s in enumerate(s for s in specs if s["index"] != "range"):
        for wi in (None, True, False):
            cases.append({**s, **base, "write_index": wi})
        o = opts[k % len(opts)]
        cases.append({**s, **o})
    for k, s in enumerate(D.sampled_specs(tier, seed)):
        for r in range(3):      # data page v1 only: the v2 reader has per-column known findings
            cases.append({**s, **opts[(3 * k + r) % len(opts)], "page_version": 1})
    # de-duplicate, keep order
    out, seen = [], set()
    for c in cases:
        c.update(derived(c))
        key = tuple(sorted((k, str(v)) for k, v in c.items()))
        if key not in seen:
            seen.add(key)
            out.append(c)
    return out


def make_snippet(features, clause="cells"):
    return f'''# C01 replay: write -> read round trip, clause {clause!r} (run from /verif: the frame and the comparison
# come from runtime.datasets / runtime.c01_roundtrip; the library under check is the plain `import fastparquet`)
import os, sys, shutil, tempfile, warnings
sys.path.insert(0, "/verif")
import fastparquet
from runtime import datasets as D
from runtime.c01_roundtrip import case_mismatch, read_back, frame_of
features = {features!r}
df = frame_of(features)
kwargs, globs = D.bind_options(features, df)
d = tempfile.mkdtemp(prefix="verif-replay-")
VIOLATED = False
try:
    warnings.simplefilter("ignore")
    with D.writer_globals(fastparquet, **globs):
        try:
            fastparquet.write(os.path.join(d, "t.parq"), df, **kwargs)
            wrote = True
        except Exception as e:
            wrote = False
            print("write raised (accepted):", type(e).__name__, e)
    if wrote:
        D.poison_heap(len(df))
        try:
            out = read_back(fastparquet, os.path.join(d, "t.parq"), features)[1]()
            cells, index = case_mismatch(df, out, kwargs.get("write_index"), features)
        except Exception as e:
            cells = index = "read raised %s: %s" % (type(e).__name__, e)
        what = {{"cells": cells, "index": index}}[{clause!r}]
        VIOLATED = what is not None
        print("VIOLATED" if VIOLATED else "ok", what or "")
finally:
    shutil.rmtree(d, ignore_errors=True)
'''


# ---- pool plumbing ----------------------------------------------------------------------------------------
def _init_worker(root):
    import tempfile
    return {"fp": import_fastparquet(), "dir": tempfile.mkdtemp(prefix="w-", dir=root)}


def _work(state, features):
    return run_case(state["fp"], features, state["dir"])


def _cleanup(state):
    shutil.rmtree(state["dir"], ignore_errors=True)


_work.cleanup = _cleanup


def run_cases(cases, workers=None):
    """Run the cases in forked worker processes; yields (features, result) in the order of `cases`.
    A worker that dies while running a case (native crash) is a failed case, not an engine error:
    neither a crashing write nor a crashing read is 'the write raises'."""
    import functools
    with tmpdir(prefix="verif-c01-") as root:        # removed even when a worker dies
        res = D.crashproof_map(_work, cases, init=functools.partial(_init_worker, root), workers=workers,
                               weight=lambda c: c["rows"])
    for c, (kind, r) in zip(cases, res):
        if kind == "ok":
            yield c, r
        elif kind == "crash":
            yield c, {"status": "fail", "what": "interpreter crashed during write/read/inspection of the result: " + r,
                      "cells": "interpreter crashed during write/read/inspection of the result: " + r, "index": None,
                      "pages": c["pages"], "evaluations": 1}
        else:
            yield c, {"status": "engine", "what": r, "pages": c["pages"], "evaluations": 0}


def run_bounded(ctx):
    import_fastparquet()
    cases = enumerate_cases(ctx.tier, ctx.seed)
    opts = D.option_features(ctx.tier)
    ctx.bounded_group(G, rule=RULE.format(n_dtypes=len(D.DTYPES), rows=D.ROWS, big=D.BIG_DTYPES,
                                          strength=2 if ctx.tier == "quick" else 3, n_opts=len(opts)))
    ctx.bounded_group(GI, rule=RULE_INDEX)
    t0 = time.time()
    raised = {}
    n_eval = mismatches = 0
    for features, res in run_cases(cases):
        feats = dict(features)
        feats["pages"] = res["pages"]          # the real page count, not the requested one
        feats["layout"] = res.get("layout", "-")
        if feats["layout"] == "model-mismatch":
            mismatches += 1
        if res["status"] == "engine":
            ctx.engine_error(f"c01 worker failed on {features}: {res['what']}")
            continue
        n_eval += res["evaluations"]
        wrote = res["status"] != "write_raised"
        with Case(ctx, G, feats, snippet=make_snippet(features, "cells"), nontrivial=features["rows"] > 0 and wrote,
                  contract=CONTRACT) as c:
            if not wrote:
                k = (features["dtype"], res["what"][:60])
                raised[k] = raised.get(k, 0) + 1
            elif res.get("cells"):
                c.fail(res["cells"])
        if wrote and not (res.get("cells") or "").startswith(("read raised", "interpreter crashed")):
            # the index clause can only be evaluated on a frame that was returned
            with Case(ctx, GI, feats, snippet=make_snippet(features, "index"),
                      nontrivial=features["rows"] > 0 and features["index_stored"] != "no", contract=CONTRACT_INDEX) as c:
                if res.get("index"):
                    c.fail(res["index"])
    ctx.note(f"c01.roundtrip: {len(cases)} cases, {n_eval} contract evaluations (post-conditions evaluated after a "
             f"write that returned), {sum(raised.values())} writes raised (accepted by the property), "
             f"{time.time() - t0:.1f}s")
    for (dtype, what), n in sorted(raised.items())[:60]:
        ctx.note(f"write raised x{n}: dtype={dtype}: {what}")
    if mismatches:
        ctx.note(f"{mismatches} cases: the written page layout differs from the documented-paging model used for the "
                 "'layout' feature (feature set to 'model-mismatch')")
    if n_eval == 0:
        ctx.engine_error("c01.roundtrip: the contract was evaluated zero times")
