"""C09 (bounded, model-based): dataset edits follow a simple model; metadata and directory agree.

Ghost model: dict partition-key -> list of rows (plain python tuples).  Operations on a hive dataset
created in an empty directory: initial write, append, append='overwrite', remove_row_groups(subset),
write_row_groups(sort_key, sort_pnames).  The dataset is re-opened from disk before every operation
and for every check.  Contract after EVERY step:
  content  : fresh ParquetFile(dir).to_pandas() == model, as a multiset of rows per partition
             (overwrite replaces exactly the partitions present in the new data, removal deletes
             exactly the chosen row groups, append / write_row_groups add rows);
  files    : every file referenced by _metadata exists and its OWN footer states the row counts the
             summary states for it; summary num_rows == sum of its row groups;
  leftover : no file named part.* below the directory is unreferenced;
  schema   : the schema of _common_metadata (and _metadata) equals the schema of every data file.
Footers are decoded with the independent IDL-driven decoder (spec.thrift_idl), not by fastparquet.
"""
import os
import re

import numpy as np
import pandas as pd

from runtime.fsmodel import (build_snippet, file_bytes, footer_span, pool_map, rows_of, same_multiset)
from runtime.harness import Case, import_fastparquet, tmpdir

G = "c09.model"

# ==== core begin
import re

C09_COLS = ["f", "p", "q", "s", "x"]
# frame alphabet: name -> list of (p, q) per row; x ids are made unique per step
C09_FRAMES = {
    "F6": [(1, "a"), (2, "a"), (1, "b"), (2, "b"), (1, "a"), (2, "b")],   # both p, both q
    "F4": [(1, "a"), (1, "a"), (2, "b"), (2, "b")],
    "P2": [(2, "a"), (2, "b")],                                          # partition p=2 only
    "P3": [(3, "a"), (3, "a"), (3, "c")],                                # a partition nobody has yet
    "P1": [(1, "b")],
    # second value alphabet: BOTH partition candidates draw from the same value set {u, v} (w = a value no
    # partition has yet), so that exchanging the two partition keys names another EXISTING partition
    "U8": [("u", "u"), ("u", "v"), ("v", "u"), ("v", "v"), ("u", "u"), ("u", "v"), ("v", "u"), ("v", "v")],
    "U4": [("u", "v"), ("v", "u"), ("u", "v"), ("v", "u")],                # the two asymmetric partitions
    "Uuv": [("u", "v")],                                                  # one asymmetric partition
    "Uvu": [("v", "u"), ("v", "u")],                                      # its mirror image
    "Uuu": [("u", "u"), ("u", "v")],                                      # p=u only, both q
    "Uwu": [("w", "u"), ("u", "w")],                                      # two partitions nobody has yet, mirror images
}
# column orders of a frame handed to the library (the dataset's partition_on order is a separate axis)
C09_ORDERS = {
    "natural": ["x", "f", "s", "p", "q"],
    "q_x_p": ["q", "x", "f", "p", "s"],         # second partition candidate first, data columns in between
    "p_q_first": ["p", "q", "s", "x", "f"],
    "q_p_last": ["f", "x", "s", "q", "p"],
}
C09_RGOS = {"none": None, "two": 2, "list": [0, 2, 4]}


def c09_frame(name, step, order=None):
    pq = C09_FRAMES[name]
    n = len(pq)
    ids = np.arange(step * 100, step * 100 + n, dtype="int64")
    f = ids / 8.0
    f[1::3] = np.nan
    s = [None if i % 4 == 3 else "v%d" % i for i in ids]
    pvals = [a for a, _ in pq]
    pcol = pd.Series(pvals, dtype=object) if any(isinstance(a, str) for a in pvals) else np.array(pvals, dtype="int64")
    df = pd.DataFrame({"x": ids, "f": f, "s": pd.Series(s, dtype=object), "p": pcol,
                       "q": pd.Series([b for _, b in pq], dtype=object)})
    return df[C09_ORDERS[order]] if order else df


def c09_rgo(kind, n):
    r = C09_RGOS[kind]
    if isinstance(r, list):
        r = [o for o in r if o < n] or [0]
    return r


def c09_key(row_dict, parts):
    return tuple(row_dict[p] for p in parts)


def c09_rows(df):
    return rows_of(df, C09_COLS)


def c09_model_add(model, df, parts):
    for r in c09_rows(df):
        d = dict(zip(C09_COLS, r))
        model.setdefault(c09_key(d, parts), []).append(r)


def c09_partnum(path):
    m = re.search(r"part\.(\d+)\.parquet$", path)
    return int(m.group(1)) if m else None


def c09_dirname(path):
    return path.rsplit("/", 1)[0] if "/" in path else ""


def c09_new_paths(df, parts, rgo, offset):
    """file paths the hive writer gives to the row groups of an appended frame (naming convention of the
    format: <partition dirs>/part.<chunk + offset>.parquet, chunk by chunk, partition keys sorted)"""
    n = len(df)
    if n == 0:
        return []
    if rgo is None:
        starts = [0]
    elif isinstance(rgo, int):
        nparts = max((n - 1) // rgo + 1, 1)
        chunk = max(min((n - 1) // nparts + 1, n), 1)
        starts = list(range(0, n, chunk))
    else:
        starts = list(rgo)
    out = []
    for i, st in enumerate(starts):
        en = starts[i + 1] if i + 1 < len(starts) else n
        sub = df.iloc[st:en]
        if not parts:
            out.append("part.%d.parquet" % (i + offset))
            continue
        keys = sorted(set(tuple(sub[p].iloc[j] for p in parts) for j in range(len(sub))))
        for k in keys:
            out.append("/".join("%s=%s" % (p, v) for p, v in zip(parts, k)) + "/part.%d.parquet" % (i + offset))
    return out


def c09_collision(paths):
    """Region predicate of the known defect (api._sort_part_names keys files by part NUMBER only):
    given the row-group file paths in their final order, a renamed file lands on a live file that
    is invisible to the rename plan because another directory holds the same part number."""
    first = {}
    for i, p in enumerate(paths):
        n = c09_partnum(p)
        if n is not None and n not in first:
            first[n] = (i, p)
    tracked = set(p for _i, p in first.values())
    shadowed = set(paths) - tracked
    for n, (r, p) in first.items():
        if n != r:
            d = c09_dirname(p)
            dst = (d + "/" if d else "") + "part.%d.parquet" % r
            if dst in shadowed:
                return True
    return False


def c09_decode(path):
    from spec import thrift_idl
    b = file_bytes(path)
    start, n = footer_span(b)
    fmd, _p = thrift_idl.dec(thrift_idl.load(), "FileMetaData", bytes(b[start:start + n]), 0, strict=False)
    return fmd


def c09_check(fp, root, model, parts):
    """-> None or text of the first disagreement"""
    meta = c09_decode(os.path.join(root, "_metadata"))
    rgs = meta.get("row_groups") or []
    # files: referenced files exist, own footers agree
    per_file = {}
    for rg in rgs:
        cols = rg.get("columns") or []
        fpath = cols[0].get("file_path") if cols else None
        if fpath is None:
            return "row group without file_path in _metadata"
        per_file.setdefault(fpath.decode(), []).append(rg.get("num_rows"))
    if meta.get("num_rows") != sum(rg.get("num_rows") for rg in rgs):
        return f"_metadata.num_rows {meta.get('num_rows')} != sum of its row groups {sum(rg.get('num_rows') for rg in rgs)}"
    schemas = {}
    for rel, counts in sorted(per_file.items()):
        p = os.path.join(root, rel)
        if not os.path.isfile(p):
            return f"referenced file {rel} does not exist"
        own = c09_decode(p)
        own_counts = [rg.get("num_rows") for rg in own.get("row_groups") or []]
        if own_counts != counts or own.get("num_rows") != sum(counts):
            return f"file {rel}: own footer row groups {own_counts} (num_rows {own.get('num_rows')}) but _metadata states {counts}"
        schemas[rel] = own.get("schema")
    # leftover part files
    on_disk = []
    for r, _ds, fs in os.walk(root):
        for fn in fs:
            if fn.startswith("part."):
                on_disk.append(os.path.relpath(os.path.join(r, fn), root).replace(os.sep, "/"))
    left = sorted(set(on_disk) - set(per_file))
    if left:
        return f"unreferenced part files left on disk: {left}"
    # schema
    common = c09_decode(os.path.join(root, "_common_metadata")).get("schema")
    if common != meta.get("schema"):
        return "_common_metadata schema differs from _metadata schema"
    for rel, sch in schemas.items():
        if sch != common:
            return f"schema of {rel} differs from _common_metadata: {sch} vs {common}"
    # content
    pf = fp.ParquetFile(root)
    got_df = pf.to_pandas()
    want = [r for k in sorted(model, key=repr) for r in model[k]]
    if len(got_df) == 0 and not want:
        return None
    missing = [c for c in C09_COLS if c not in got_df.columns]
    if missing:
        return f"columns {missing} missing in read-back {list(got_df.columns)}"
    got = c09_rows(got_df)
    if not same_multiset(got, want):
        gx, wx = sorted(r[4] for r in got), sorted(r[4] for r in want)
        return f"content differs from model: row ids read {gx} expected {wx}" if gx != wx else \
            f"content differs from model in values: read {sorted(got, key=repr)[:3]} expected {sorted(want, key=repr)[:3]}"
    got_model = {}
    for r in got:
        got_model.setdefault(c09_key(dict(zip(C09_COLS, r)), parts), []).append(r)
    for k in set(got_model) | set(k for k in model if model[k]):
        if not same_multiset(got_model.get(k, []), model.get(k, [])):
            return f"partition {k}: rows differ from model"
    return None


def c09_subset(kind, paths):
    n = len(paths)
    if n == 0:
        return []
    if kind == "first":
        return [0]
    if kind == "last":
        return [n - 1]
    if kind == "evens":
        return list(range(0, n, 2))
    if kind == "all":
        return list(range(n))
    if kind == "firstdir":      # every row group of the partition directory of row group 0
        d = c09_dirname(paths[0])
        return [i for i, p in enumerate(paths) if c09_dirname(p) == d]
    if kind == "none":
        return []
    raise ValueError(kind)


def c09_apply(fp, root, model, parts, op, step, info, order=None, order0=None):
    """apply one operation to the real dataset and to the model.  info collects the collision predicate.
    order0 / order: column order (name in C09_ORDERS) of the original frame / of every later frame."""
    kind = op[0]
    if kind == "write":
        _k, fname, rk = op
        df = c09_frame(fname, step, order0)
        fp.write(root, df, file_scheme="hive", partition_on=parts, row_group_offsets=c09_rgo(rk, len(df)))
        model.clear()
        c09_model_add(model, df, parts)
        return
    pf = fp.ParquetFile(root)                              # fresh open before every operation
    paths = [rg.columns[0].file_path for rg in pf.row_groups]
    nums = [c09_partnum(p) for p in paths if c09_partnum(p) is not None]
    offset = max(nums) + 1 if nums else 0
    empty_partitioned = bool(parts) and not paths
    if kind == "append":
        _k, fname, rk = op
        df = c09_frame(fname, step, order)
        try:
            fp.write(root, df, file_scheme="hive", partition_on=parts, append=True,
                     row_group_offsets=c09_rgo(rk, len(df)))
        except ValueError:
            if empty_partitioned:       # refusal: an empty dataset has forgotten its partitioning
                info["refused"] += 1
                return
            raise
        c09_model_add(model, df, parts)
    elif kind == "overwrite":
        _k, fname, rk = op
        df = c09_frame(fname, step, order)
        rgo = c09_rgo(rk, len(df))
        new = c09_new_paths(df, parts, rgo, offset)
        # order the library documents: new row groups go to the first row group of their partition
        # (new partitions last), then the old row groups of the partitions present in the data go away
        starts = {}
        for i, p in enumerate(paths):
            starts.setdefault(c09_dirname(p), i)
        merged = sorted(paths + new, key=lambda p: starts.get(c09_dirname(p), len(paths)))
        newdirs = set(c09_dirname(p) for p in new)
        final = [p for p in merged if not (p in paths and c09_dirname(p) in newdirs)]
        if c09_collision(final):
            info["collision"] = True
        try:
            fp.write(root, df, file_scheme="hive", partition_on=parts, append="overwrite", row_group_offsets=rgo)
        except ValueError:
            if empty_partitioned:
                info["refused"] += 1
                return
            raise
        for k in set(c09_key(dict(zip(C09_COLS, r)), parts) for r in c09_rows(df)):
            model[k] = []               # exactly the partitions present in the new data are replaced
        c09_model_add(model, df, parts)
    elif kind == "remove":
        _k, sub, sp = op
        idx = c09_subset(sub, paths)
        # which rows do the chosen row groups hold?  read each chosen row group on its own
        gone = set()
        for i in idx:
            one = pf[i].to_pandas()
            gone |= set(int(v) for v in one["x"])
        if sp and c09_collision([p for i, p in enumerate(paths) if i not in idx]):
            info["collision"] = True
        pf.remove_row_groups([pf.row_groups[i] for i in idx], sort_pnames=bool(sp))
        for k in model:
            model[k] = [r for r in model[k] if r[4] not in gone]
    elif kind == "wrg":
        _k, fname, rk, sk, sp = op
        df = c09_frame(fname, step, order)
        rgo = c09_rgo(rk, len(df))
        new = c09_new_paths(df, parts, rgo, offset)
        if sk == "newfirst":
            def pkey(p):
                return 0 if c09_partnum(p) >= offset else 1
        elif sk == "bydir":
            def pkey(p):
                return c09_dirname(p)
        else:
            pkey = None
        sort_key = (lambda rg: pkey(rg.columns[0].file_path)) if pkey else None
        final = sorted(paths + new, key=pkey) if pkey else paths + new
        if sp and c09_collision(final):
            info["collision"] = True
        if empty_partitioned:
            # partition columns unknown to an empty dataset: the frame's columns are refused
            try:
                pf.write_row_groups(df, row_group_offsets=rgo, sort_key=sort_key, sort_pnames=bool(sp))
            except ValueError:
                info["refused"] += 1
                return
            raise AssertionError("write_row_groups on an empty partitioned dataset was expected to be refused")
        pf.write_row_groups(df, row_group_offsets=rgo, sort_key=sort_key, sort_pnames=bool(sp))
        c09_model_add(model, df, parts)
    else:
        raise ValueError(kind)


# ---- third family: partition VALUE TYPES (the text a value gets in the directory name vs. the text overwrite matches it with)
C09_TYPED = {          # kind -> three values (two written originally, the third is a partition nobody has yet)
    "datetime64 midnight": lambda: list(pd.to_datetime(["2020-01-01", "2021-06-01", "2022-02-02"])),
    "datetime64 with time": lambda: list(pd.to_datetime(["2020-01-01 12:00:00", "2021-06-01 01:02:03", "2022-02-02 23:59:59"])),
    "datetime64 sub-second": lambda: list(pd.to_datetime(["2020-01-01 12:00:00.000123", "2021-06-01 00:00:00.5", "2022-02-02 00:00:00.000001"])),
    "float32 inexact": lambda: [np.float32(0.1), np.float32(1 / 3), np.float32(2.7)],
    "float64": lambda: [0.1, 2.5, -1e-7],
    "bool": lambda: [True, False, None],
    "int32": lambda: [np.int32(7), np.int32(-70000), np.int32(8)],
    "str": lambda: ["a", "True", "1.0"],
    # a categorical partition column whose dtype has categories NO row carries ('zz' never, 'c' not in the original write):
    # groupby(observed=False) then yields EMPTY groups - a writer that opens a file / makes a directory for them leaves
    # 0-byte part files and spurious partition directories that _metadata does not reference
    "categorical unobserved": lambda: ["a", "b", "c"],
}
C09_TYPED_CATEGORIES = {"categorical unobserved": ["a", "b", "c", "zz"]}
C09_TYPED_DTYPE = {"float32 inexact": "float32", "int32": "int32", "bool": "bool"}


def c09_typed_frame(kind, idxs, step):
    vals = C09_TYPED[kind]()
    col = [vals[i] for i in idxs]
    dt = C09_TYPED_DTYPE.get(kind)
    p = pd.Series(col, dtype=dt) if dt else pd.Series(col)
    if kind in C09_TYPED_CATEGORIES:
        p = pd.Series(pd.Categorical(col, categories=C09_TYPED_CATEGORIES[kind]))
    return pd.DataFrame({"x": np.arange(step * 100, step * 100 + len(idxs), dtype="int64"), "p": p})


def c09_typed_index(kind, v):
    """which of the kind's values is the value read back from the partition column (None if none)"""
    vals = C09_TYPED[kind]()
    for i, w in enumerate(vals):
        if w is None:
            continue
        try:
            if kind.startswith("datetime64"):
                ok = pd.Timestamp(v) == pd.Timestamp(w)
            elif kind.startswith("float"):
                ok = abs(float(v) - float(w)) <= 1e-6 * max(1.0, abs(float(w)))
            elif kind == "bool":
                ok = (str(v).lower() == "true") == bool(w) and str(v).lower() in ("true", "false")
            elif kind == "int32":
                ok = int(v) == int(w)
            else:
                ok = str(v) == str(w)
        except Exception:
            ok = False
        if ok:
            return i
    return None


def c09_typed_run(fp, spec, root):
    """hive dataset partitioned on ONE column of the given value type; ops: ('append'|'overwrite', [value indices]).
    model: row id -> value index.  After every step: read-back ids and their partition value == model; referenced files
    exist; no unreferenced part.* file."""
    kind = spec["typed"]
    info = {"collision": False, "refused": 0, "steps": 0}
    ds = os.path.join(root, "ds")
    model = {}
    for step, op in enumerate(spec["ops"]):
        df = c09_typed_frame(kind, op[1], step)
        new = {int(x): i for x, i in zip(df["x"], op[1])}
        try:
            if op[0] == "write":
                fp.write(ds, df, file_scheme="hive", partition_on=["p"])
                model = dict(new)
            else:
                pf = fp.ParquetFile(ds)
                paths = [rg.columns[0].file_path for rg in pf.row_groups]
                if op[0] == "overwrite":
                    # region predicate of the known rename defect, on the order the library documents (see c09_apply)
                    dir_of = {}
                    for i, pth in enumerate(paths):
                        one = pf[i].to_pandas()
                        for v in one["p"]:
                            k = c09_typed_index(kind, v)
                            if k is not None:
                                dir_of[k] = c09_dirname(pth)
                    nums = [c09_partnum(x) for x in paths if c09_partnum(x) is not None]
                    off = max(nums) + 1 if nums else 0
                    newp = [dir_of.get(k, "p=<new %d>" % k) + "/part.%d.parquet" % off for k in sorted(set(op[1]))]
                    starts = {}
                    for i, x in enumerate(paths):
                        starts.setdefault(c09_dirname(x), i)
                    merged = sorted(paths + newp, key=lambda x: starts.get(c09_dirname(x), len(paths)))
                    nd = set(c09_dirname(x) for x in newp)
                    if c09_collision([x for x in merged if not (x in paths and c09_dirname(x) in nd)]):
                        info["collision"] = True
                fp.write(ds, df, file_scheme="hive", partition_on=["p"], append=True if op[0] == "append" else "overwrite")
                if op[0] == "overwrite":
                    model = {x: i for x, i in model.items() if i not in set(op[1])}
                model.update(new)
        except Exception as e:
            return f"step {step} {op}: operation raised {type(e).__name__}: {str(e)[:200]}", info
        info["steps"] += 1
        try:
            pf = fp.ParquetFile(ds)
            got = pf.to_pandas()
            have = {int(x): c09_typed_index(kind, v) for x, v in zip(got["x"], got["p"])} if len(got) else {}
            if len(got) != len(have) or have != model:
                return (f"after step {step} {op}: content differs from model: row id -> partition value read "
                        f"{sorted(have.items())} (rows {len(got)}) expected {sorted(model.items())}"), info
            ref = set(rg.columns[0].file_path for rg in pf.row_groups)
            disk = set()
            for r, _ds, fs in os.walk(ds):
                for fn in fs:
                    if fn.startswith("part."):
                        disk.add(os.path.relpath(os.path.join(r, fn), ds).replace(os.sep, "/"))
            if ref - disk:
                return f"after step {step} {op}: referenced files missing {sorted(ref - disk)}", info
            if disk - ref:
                return f"after step {step} {op}: unreferenced part files left on disk {sorted(disk - ref)}", info
        except Exception as e:
            return f"after step {step} {op}: check raised {type(e).__name__}: {str(e)[:200]}", info
    return None, info


def c09_run(fp, spec, root):
    """-> (None | text of first failure, info)"""
    if "typed" in spec:
        return c09_typed_run(fp, spec, root)
    parts = spec["parts"]
    model = {}
    info = {"collision": False, "refused": 0, "steps": 0}
    ds = os.path.join(root, "ds")
    for step, op in enumerate(spec["ops"]):
        try:
            c09_apply(fp, ds, model, parts, op, step, info, spec.get("order"), spec.get("order0"))
        except Exception as e:
            return f"step {step} {op}: operation raised {type(e).__name__}: {str(e)[:200]}", info
        info["steps"] += 1
        try:
            r = c09_check(fp, ds, model, parts)
        except Exception as e:
            r = f"check raised {type(e).__name__}: {str(e)[:200]}"
        if r:
            return f"after step {step} {op}: {r}", info
    return None, info
# ==== core end


PARTS = [[], ["p"], ["p", "q"]]
INITS = [("write", "F6", "none"), ("write", "F6", "list"), ("write", "F4", "two")]


def op_alphabet(parts):
    ops = [
        ("append", "F4", "none"), ("append", "P2", "two"), ("append", "P3", "none"), ("append", "F6", "list"),
        ("remove", "first", 0), ("remove", "last", 1), ("remove", "evens", 1), ("remove", "firstdir", 0),
        ("remove", "all", 0), ("remove", "none", 1),
        ("wrg", "P2", "none", "none", 0), ("wrg", "P2", "none", "newfirst", 1), ("wrg", "F4", "two", "bydir", 1),
        ("wrg", "P3", "none", "newfirst", 0), ("wrg", "P1", "none", "none", 1),
    ]
    if parts:
        ops += [("overwrite", "P2", "none"), ("overwrite", "F4", "two"), ("overwrite", "P3", "none")]
    return ops


# second family: overlapping partition values, partition_on order vs. frame column order
UV_PARTS = [["p", "q"], ["q", "p"], ["p"], ["q"]]
UV_INITS = [("write", "U8", "none"), ("write", "U8", "list")]
UV_ORDERS = ["natural", "q_x_p", "p_q_first", "q_p_last"]


def uv_alphabet():
    return [
        ("overwrite", "Uuv", "none"), ("overwrite", "Uvu", "two"), ("overwrite", "U4", "two"),
        ("overwrite", "Uuu", "none"), ("overwrite", "Uwu", "none"),
        ("append", "Uuv", "none"), ("append", "U4", "two"),
        ("remove", "first", 0), ("remove", "firstdir", 1),
        ("wrg", "Uvu", "none", "newfirst", 0), ("wrg", "Uuv", "none", "bydir", 1),
    ]


def enumerate_uv(tier):
    specs = []
    alpha = uv_alphabet()
    quick = tier == "quick"
    for parts in UV_PARTS:
        for init in UV_INITS:
            for order0 in ("natural", "q_p_last"):
                for order in UV_ORDERS:
                    if quick and order0 != "natural" and order not in ("natural", "q_x_p"):
                        continue
                    base = {"parts": parts, "order": order, "order0": order0}
                    for a in alpha:
                        specs.append(dict(base, ops=[init, a]))
                    if quick and (order0 != "natural" or init != UV_INITS[0]):
                        continue
                    # quick: ALL pairs for the first original on the two 2-column partitionings with the
                    # interleaved frame order; elsewhere one third of the pairs that contain an overwrite
                    full = not quick or (order == "q_x_p" and len(parts) == 2)
                    for ia, a in enumerate(alpha):
                        for ib, b in enumerate(alpha):
                            if not full and ((a[0] != "overwrite" and b[0] != "overwrite") or
                                             (ia + ib + UV_ORDERS.index(order)) % 3):
                                continue
                            specs.append(dict(base, ops=[init, a, b]))
    # the first family's frames with the partition_on order reversed and permuted frame columns
    for order in UV_ORDERS:
        for init in INITS:
            alpha = op_alphabet(["q", "p"])
            base = {"parts": ["q", "p"], "order": order, "order0": "natural"}
            for a in alpha:
                specs.append(dict(base, ops=[init, a]))
                if tier != "quick" or a[0] == "overwrite":
                    for b in alpha:
                        if tier != "quick" or b[0] == "overwrite":
                            specs.append(dict(base, ops=[init, a, b]))
    return specs


TYPED_HISTORIES = [
    [["overwrite", [0, 0]]],                                   # replace one existing partition
    [["overwrite", [1, 2]]],                                   # one existing + one new partition
    [["append", [0]], ["overwrite", [0]]],                     # partition held by two files
    [["overwrite", [0]], ["overwrite", [0, 1]]],
    [["append", [2, 1]], ["overwrite", [2]]],
]


def enumerate_typed(tier):
    specs = []
    for kind in C09_TYPED:
        third = 2 if C09_TYPED[kind]()[2] is not None else 1          # bool has only two values
        for h in TYPED_HISTORIES:
            ops = [["write", [0, 0, 1, 1]]] + [[o, [min(i, third) if i < 2 or third == 2 else 1 for i in idx]] for o, idx in h]
            specs.append({"typed": kind, "ops": ops})
    return specs


def enumerate_specs(tier, seed):
    specs = []
    for parts in PARTS:
        alpha = op_alphabet(parts)
        for init in INITS:
            specs.append({"parts": parts, "ops": [init]})
            for a in alpha:
                specs.append({"parts": parts, "ops": [init, a]})
            for a in alpha:
                for b in alpha:
                    if tier == "quick" and (init != INITS[0] or not parts) and \
                            (alpha.index(a) + alpha.index(b) + INITS.index(init)) % 4:
                        continue        # quick: ALL pairs for the first original on partitioned datasets, a quarter otherwise
                    specs.append({"parts": parts, "ops": [init, a, b]})
    specs += enumerate_uv(tier)
    specs += enumerate_typed(tier)
    if tier == "thorough":
        import random
        rng = random.Random(seed)
        for parts in PARTS:
            alpha = op_alphabet(parts)
            for ln in (3, 4):
                for _ in range(500):
                    specs.append({"parts": parts, "ops": [rng.choice(INITS)] + [rng.choice(alpha) for _ in range(ln)]})
        alpha = uv_alphabet()
        for parts in UV_PARTS:
            for ln in (3, 4):
                for _ in range(200):
                    specs.append({"parts": parts, "order": rng.choice(UV_ORDERS), "order0": rng.choice(UV_ORDERS),
                                  "ops": [rng.choice(UV_INITS)] + [rng.choice(alpha) for _ in range(ln)]})
    return specs


def opname(op):
    return ":".join(str(x) for x in op)


def features_of(spec, info):
    if "typed" in spec:
        return {"partition_on": "p", "partition_value_type": spec["typed"], "original": "write:typed[0,0,1,1]",
                "ops": "|".join("%s:%s" % (o, "".join(map(str, idx))) for o, idx in spec["ops"][1:]),
                "pnames_collision": bool(info["collision"]), "frame_columns": "natural", "original_columns": "natural"}
    return {"partition_on": ",".join(spec["parts"]), "original": opname(spec["ops"][0]),
            "ops": "|".join(opname(o) for o in spec["ops"][1:]), "pnames_collision": bool(info["collision"]),
            "frame_columns": spec.get("order") or "natural", "original_columns": spec.get("order0") or "natural"}


def snippet_of(spec):
    tail = "\n".join([
        "SPEC['ops'] = [tuple(o) for o in SPEC['ops']] if 'typed' not in SPEC else SPEC['ops']",
        "root = tempfile.mkdtemp(prefix='verif-c09-')",
        "try:",
        "    WHAT, INFO = c09_run(fp, SPEC, root)",
        "finally:",
        "    shutil.rmtree(root, ignore_errors=True)",
        "print(WHAT, INFO)",
        "VIOLATED = WHAT is not None",
    ])
    return build_snippet(__file__, spec, tail)


_FP = None


def _worker(spec):
    global _FP
    if _FP is None:
        _FP = import_fastparquet()
    with tmpdir("verif-c09-") as root:
        try:
            return c09_run(_FP, spec, root)
        except Exception as e:
            return f"history could not be run: {type(e).__name__}: {str(e)[:200]}", {"collision": False, "refused": 0, "steps": 0}


def run_bounded(ctx):
    ctx.bounded_group(G, rule=(
        "hive datasets in an empty directory, partition_on in {none, p, (p,q)}; original write in "
        f"{[opname(i) for i in INITS]} (frame:row_group_offsets); then ALL sequences of 0..2 further operations (3 steps "
        "in total; quick: all pairs for the first original on partitioned datasets, every single operation and a "
        "quarter of the pairs otherwise; thorough: all pairs everywhere + seeded samples of 4 and 5 steps) over an alphabet of 15 (18 with partitions) "
        "operations: append(frame,rgo), append='overwrite'(frame,rgo), remove_row_groups(first|last|evens|all|"
        "all of one partition dir|none, sort_pnames), write_row_groups(frame, rgo, sort_key none|new-first|by-dir, "
        "sort_pnames); frames F6/F4 (both partitions), P2/P1 (one existing partition), P3 (new partition), row ids "
        "unique per step; fresh open before every operation and for every check.  Operations on a partitioned "
        "dataset that has become empty are refused by the library (ValueError) and leave the model unchanged.  "
        "SECOND FAMILY (partition keys that can be confused): p and q both strings over the SAME value set {u,v} (+w new), "
        f"partition_on in {UV_PARTS} (both orders of the two columns), original U8 (all four partitions twice) with "
        f"row_group_offsets none|list and columns in natural or q_p_last order; every later frame handed over with its "
        f"columns in one of {len(C09_ORDERS)} orders {list(C09_ORDERS)} (partition columns before/after/between the data "
        "columns, q before p), so that the frame's column order differs from the partition_on order; alphabet of 11 "
        "operations (5 overwrites: one asymmetric partition (u,v), its mirror (v,u), both, one value of p, two new mirror "
        "partitions; 2 appends, 2 removals, 2 write_row_groups); all single operations everywhere, all pairs for the "
        "interleaved order on 2-column partitionings and a third of the overwrite-containing pairs elsewhere (thorough: "
        "all pairs + seeded 4/5-step histories); plus the first family's frames on partition_on=(q,p) with permuted columns.  "
        f"THIRD FAMILY (partition value types): one partition column of type {list(C09_TYPED)} (three values each, bool two), original "
        f"4 rows over two values, then the {len(TYPED_HISTORIES)} histories {TYPED_HISTORIES} of append / append='overwrite' over value indices; after every step "
        "row ids and the partition value read back per row == model, referenced files exist, no unreferenced part file."))
    specs = enumerate_specs(ctx.tier, ctx.seed)
    results = pool_map(_worker, specs, chunksize=8)
    for spec, (what, info) in zip(specs, results):
        feats = features_of(spec, info)
        with Case(ctx, G, feats, snippet=snippet_of(spec), nontrivial=info["steps"] > 0 or what is not None,
                  contract="after every step: read-back == model per partition; referenced files exist with the stated "
                           "row counts; no unreferenced part.* file; summary schema == file schema") as c:
            if what is not None:
                c.fail(what)
            elif info["collision"]:
                ctx.note("known-finding region passes now (defect repaired?): " + feats["ops"])
