"""Deterministic dataset family for the read-side bounded modules (C05, C06, C13, C17).

Every dataset is written with the REAL `fastparquet.write` of the tree under check into a scratch
directory handed in by the caller, and is returned together with its source DataFrame (the oracle
side).  Nothing here depends on a seed.

Design of the frame (rows = n, default 36):
  rid  int64   0..n-1, unique, ascending        row identity: maps read rows back to source rows
  i    int64   small non-monotonic range, duplicates, bounds repeated in several row groups
  f    float64 with NaN in every row group
  s    object  str with None in every row group
  c    category (3 labels, same label set in every row group)
  t    datetime64 non-monotonic
  b    bool
  n    Int64 (nullable) with <NA> in every row group
  an   Int64 / object: ALL null inside row group 1, no null elsewhere
  k    constant int64 (min == max in every chunk)
  pi/ps/pb/pt  partition columns (int / str / bool / datetime) when the layout asks for them
  tl/tu/tk     tz-aware datetime64 (Europe/London, UTC, Asia/Kolkata) when the recipe asks for them (TZ datasets)

Layouts: single file | hive | drill, 0..2 partition columns, 1..4 row groups, multi-page chunks
(MAX_PAGE_SIZE=64), DATAPAGE_VERSION 1|2, stats True|False|'auto'|list, written index none |
range(step 2) | named datetime | named int.

Deliberately avoided (defects of the pinned tree that belong to other properties and would make
every read of the dataset fail, see AGENT_BRIEF): nullable Int64 + v2 + several pages; MultiIndex
(segfaults under pandas 3 in this environment - never read in-process); categorical columns with
different label sets per row group; backslash in partition values.
"""
import os

import numpy as np
import pandas as pd

TEST_DATA = "/repo/test-data"

PART_COLS = ("pi", "ps", "pb", "pt")


def source_frame(n=36, an_kind="Int64", an_rows=(), with_n=True, parts=(), tz=(), long_text=False, grow_cat=False):
    r = np.arange(n)
    d = {
        "rid": r.astype("int64"),
        "i": ((r * 7) % 23 - 5).astype("int64"),
        "f": np.where(r % 5 == 3, np.nan, (r % 11) * 0.5 - 1.0),
        "s": pd.Series([None if k % 4 == 1 else "abcdefgh"[k % 7] + str(k % 3) for k in r], dtype=object),
        "c": pd.Categorical([["lo", "mid", "hi"][k % 3] for k in r], categories=["lo", "mid", "hi"]),
        "t": pd.to_datetime("2020-01-01") + pd.to_timedelta((r * 37) % 50, unit="h"),
        "b": (r % 3 == 0),
    }
    for z in tz:        # tz-AWARE datetime columns: the instants of t, shown in a zone
        d[z] = d["t"].tz_localize("UTC").tz_convert({"tl": "Europe/London", "tu": "UTC", "tk": "Asia/Kolkata"}[z])
    if long_text:       # text cells of 74..133 bytes sharing a 70-byte prefix (long URLs): u object with None, us str dtype
        long = ["https://example.org/" + "p" * 50 + "/%03d" % ((k * 37) % 101) + "x" * (k % 60) for k in r]
        d["u"] = pd.Series([None if k % 4 == 2 else v for k, v in zip(r, long)], dtype=object)
        d["us"] = pd.Series(long[::-1], dtype="str")
    if with_n:
        d["n"] = pd.array([None if k % 6 == 2 else int(k % 9) - 4 for k in r], dtype="Int64")
    lo, hi = (an_rows or (0, 0))
    if an_kind == "Int64":
        d["an"] = pd.array([None if lo <= k < hi else int(k % 5) + 1 for k in r], dtype="Int64")
    elif an_kind == "str":
        d["an"] = pd.Series([None if lo <= k < hi else "v%d" % (k % 5) for k in r], dtype=object)
    if grow_cat:        # categorical whose label set GROWS every 12 rows (written row group by row group with append: each row
        # group's dictionary is a longer prefix of the final labels)
        labs = ["lo", "mid", "hi", "top", "peak"]
        d["c"] = pd.Categorical([labs[(k * 5 + k // 12) % min(k // 12 + 2, len(labs))] for k in r], categories=labs[:min((n - 1) // 12 + 2, len(labs))])
    d["k"] = np.full(n, 7, dtype="int64")
    for p in parts:
        if p == "pi":
            d["pi"] = ((r // 3) % 3 + 1).astype("int64")           # 1,2,3
        elif p == "ps":
            d["ps"] = pd.Series([["x", "y"][(k // 2) % 2] for k in r], dtype=object)
        elif p == "pb":
            d["pb"] = (r % 2 == 0)
        elif p == "pt":
            d["pt"] = pd.to_datetime(["2021-03-01", "2021-03-02", "2021-04-05"])[(r // 4) % 3]
    return pd.DataFrame(d)


class DS:
    """One dataset on disk + its oracle side."""

    def __init__(self, name, path, src, feats, foreign=False, index_col=None, index_kind="none"):
        self.name, self.path, self.src, self.feats = name, path, src, feats
        self.foreign = foreign
        self.index_col = index_col          # name of the written index column (None: auto range)
        self.index_kind = index_kind        # none | range | M | i
        self.parts = [p for p in PART_COLS if src is not None and p in src.columns]

    def open(self, fp, **kw):
        return fp.ParquetFile(self.path, **kw)



_SNIP_HEAD = '''import os, sys, tempfile, shutil, pickle, copy, io
import numpy as np, pandas as pd
import fastparquet
VIOLATED = False
%(source_frame)s
D = tempfile.mkdtemp(prefix="verif-replay-")
try:
%(build)s
    pf = fastparquet.ParquetFile(path)
    try:
'''
_SNIP_TAIL = '''
    except Exception as _e:      # a raising read is a failed contract
        import traceback; traceback.print_exc()
        VIOLATED = True
finally:
    shutil.rmtree(D, ignore_errors=True)
print("VIOLATED =", VIOLATED)
'''


def _indent(code, n=4):
    return "\n".join(" " * n + ln if ln.strip() else ln for ln in code.strip("\n").splitlines())


def make_snippet(name, body):
    """Self-contained replay program (plain `import fastparquet`): rebuilds dataset `name` from the
    same generated recipe code that `build_one` executes, binds `pf`, `src`, `path`, runs `body`
    (python statements that may set VIOLATED) and cleans up."""
    import inspect
    if name.startswith("foreign:"):
        build = "path = %r\nsrc = None" % os.path.join(TEST_DATA, name[len("foreign:"):])
    else:
        build = recipe_code(name)
    return (_SNIP_HEAD % {"source_frame": inspect.getsource(source_frame), "build": _indent(build)}
            + _indent(body, 8) + _SNIP_TAIL)


# name -> recipe.  offsets are row_group_offsets of fastparquet.write
RECIPES = {
    # single files
    "flat1":      dict(n=36, offsets=[0], v=1, page=None, stats="auto", an=None),
    "flat3":      dict(n=36, offsets=[0, 12, 24], v=1, page=64, stats=True, an=("Int64", (12, 24))),
    "flat4v2":    dict(n=36, offsets=[0, 9, 18, 27], v=2, page=64, stats=["rid", "f", "t", "c", "b", "an", "k"],
                       an=("str", (9, 18)), with_n=False),
    "flat2v2":    dict(n=36, offsets=[0, 18], v=2, page=None, stats=False, an=("Int64", (18, 36))),
    # multi-file without partitions
    "hive0":      dict(n=36, offsets=[0, 12, 24], v=1, page=None, stats="auto", an=("Int64", (12, 24)), scheme="hive"),
    # partitioned
    "hive_pi":    dict(n=36, offsets=[0, 18], v=1, page=64, stats=True, an=("str", (0, 0)), scheme="hive",
                       parts=["pi"]),
    "hive_ps_pb": dict(n=36, offsets=[0, 18], v=1, page=None, stats="auto", an=None, scheme="hive",
                       parts=["ps", "pb"]),
    "hive_pt":    dict(n=36, offsets=[0], v=2, page=None, stats=True, an=None, scheme="hive", parts=["pt"],
                       with_n=True),
    "drill_pi_ps": dict(n=36, offsets=[0, 18], v=1, page=None, stats=True, an=None, scheme="drill",
                        parts=["pi", "ps"]),
    # written indexes
    "idx_range":  dict(n=36, offsets=[0, 12, 24], v=1, page=None, stats="auto", an=None, index="range"),
    "idx_dt":     dict(n=36, offsets=[0, 20], v=1, page=64, stats="auto", an=None, index="M"),
    "idx_int":    dict(n=36, offsets=[0, 20], v=1, page=None, stats="auto", an=None, index="i"),
    # degenerate
    "empty0":     dict(n=0, offsets=[0], v=1, page=None, stats="auto", an=None),
    "one_row":    dict(n=1, offsets=[0], v=1, page=None, stats=True, an=None),
    # tz-aware datetime columns: as data, as the written index (single file / partitioned multi-file, v1 / v2)
    "tz_data":    dict(n=36, offsets=[0, 12, 24], v=1, page=None, stats="auto", an=None, tz=("tl", "tu", "tk")),
    "tz_idx_london": dict(n=36, offsets=[0, 20], v=1, page=64, stats="auto", an=None, tz=("tl", "tu"), index="tl"),
    "tz_idx_utc_hive": dict(n=36, offsets=[0, 18], v=2, page=None, stats=True, an=None, tz=("tu", "tk"), index="tu",
                            scheme="hive", parts=["pi"]),
    # tz-aware columns AND a row group of exactly ONE row (rows 0:3, 3:4, 4:7): single-row reads of tz-aware blocks (seed C06-m14)
    "tz_one_row_rg": dict(n=7, offsets=[0, 3, 4], v=1, page=None, stats="auto", an=None, tz=("tl", "tu")),
    # column chunks of SEVERAL data pages (30 rows per row group, MAX_PAGE_SIZE=64: 5 pages for the 8-byte columns,
    # other page boundaries for text / bool / categorical), v1 and v2
    "pages_v1":   dict(n=60, offsets=[0, 30], v=1, page=64, stats=True, an=("Int64", (30, 45))),
    "pages_v2":   dict(n=60, offsets=[0, 30], v=2, page=64, stats=True, an=None, with_n=False),
    # text columns whose cells are LONGER than 64 bytes and share a 70-byte prefix, statistics on, several row groups
    "long_text":  dict(n=36, offsets=[0, 12, 24], v=1, page=None, stats=True, an=None, long=True),
    "long_text_hive_v2": dict(n=36, offsets=[0, 18], v=2, page=None, stats=["rid", "u", "us"], an=None, long=True,
                              scheme="hive", with_n=False),
    # MAX_PAGE_SIZE=16: one row per page for the 8-byte columns, 3 / 2 pages for the categorical column
    "pages_v1_tiny": dict(n=48, offsets=[0, 30], v=1, page=16, stats="auto", an=("str", (30, 40))),
    # categorical labels that grow from row group to row group (append with new labels): dictionaries [lo,mid] [lo,mid,hi] [lo,mid,hi,top]
    "cat_grows":  dict(n=36, offsets=[0, 12, 24], v=1, page=None, stats="auto", an=None, grow_cat=True),
}

QUICK = ["flat1", "flat3", "flat4v2", "flat2v2", "hive0", "hive_pi", "hive_ps_pb", "hive_pt", "drill_pi_ps",
         "idx_range", "idx_dt", "idx_int", "empty0", "one_row"]
TZ = ["tz_data", "tz_idx_london", "tz_idx_utc_hive"]        # not part of QUICK: used by the modules that ask for them
LONG_TEXT = ["long_text", "long_text_hive_v2"]             # asked for by c05
PAGES = ["pages_v1", "pages_v2", "pages_v1_tiny"]                           # not part of QUICK either (c13 asks for them)
TZ_ONE_ROW = ["tz_one_row_rg"]                              # not part of QUICK: c06 asks for it (seed C06-m14)
CAT_GROWS = ["cat_grows"]                                    # not part of QUICK: c06 asks for it (seed C06-m12)

FOREIGN = ["nation.plain.parquet", "nation.dict.parquet", "nation.impala.parquet", "snappy-nation.impala.parquet",
           "gzip-nation.impala.parquet", "datapage_v2.snappy.parquet", "decimals.parquet", "empty.parquet",
           "foo.parquet", "metas.parq", "mr_times.parq", "test-null.parquet", "test-null-dictionary.parquet",
           "test-converted-type-null.parquet", "test-timezone.parquet", "test.parquet",
           "non-std-kvm.fp-0.8.2.parquet", "no_columns.parquet", "no_columns_new.parquet",
           "baz.parquet", "split", "multi_rgs_pyarrow", "spark-date-empty-rg.parq", "dir_metadata", "evo",
           "airlines_parquet"]


def recipe_code(name):
    """Python source that builds dataset `name` under directory D with the names `fastparquet`, `np`,
    `pd`, `os`, `source_frame` in scope; binds `src`, `towrite`, `path`."""
    rc = RECIPES[name]
    parts = rc.get("parts", [])
    an = rc.get("an")
    L = []
    if rc["n"] == 0:
        L.append("src = source_frame(4, an_kind=None, parts=%r).iloc[:0]" % (parts,))
    else:
        L.append("src = source_frame(%d, an_kind=%r, an_rows=%r, with_n=%r, parts=%r%s)" % (
            rc["n"], an[0] if an else None, an[1] if an else (), rc.get("with_n", True), parts,
            (", tz=%r" % (tuple(rc["tz"]),) if rc.get("tz") else "") + (", long_text=True" if rc.get("long") else "")
            + (", grow_cat=True" if rc.get("grow_cat") else "")))
    ix = rc.get("index")
    if ix == "range":
        L.append("towrite = src.set_axis(pd.RangeIndex(5, 5 + 2 * len(src), 2), axis=0)")
    elif ix == "M":
        L.append("towrite = src.set_index('t')")
    elif ix == "i":
        L.append("towrite = src.set_index('i')")
    elif ix in ("tl", "tu", "tk"):
        L.append("towrite = src.set_index(%r)" % ix)
    else:
        L.append("towrite = src")
    scheme = rc.get("scheme", "simple")
    L.append("path = os.path.join(D, %r)" % (name + (".parq" if scheme == "simple" else "")))
    L.append("_w = fastparquet.writer")
    L.append("_old = (_w.DATAPAGE_VERSION, _w.MAX_PAGE_SIZE)")
    L.append("try:")
    L.append("    _w.DATAPAGE_VERSION = %d" % rc["v"])
    if rc["page"]:
        L.append("    _w.MAX_PAGE_SIZE = %d" % rc["page"])
    kw = ", partition_on=%r" % (parts,) if parts else ""
    if rc.get("grow_cat"):      # one write per row group, appended: row group j only knows the labels seen so far
        L.append("    _offs = %r + [len(towrite)]" % (list(rc["offsets"]),))
        L.append("    for _j in range(len(_offs) - 1):")
        L.append("        _p = towrite.iloc[_offs[_j]:_offs[_j + 1]].copy()")
        L.append("        _p['c'] = pd.Categorical(_p['c'].astype(object), categories=list(towrite['c'].cat.categories)[:_j + 2])")
        L.append("        fastparquet.write(path, _p, row_group_offsets=[0], file_scheme=%r, stats=%r%s, append=_j > 0)" % (scheme, rc["stats"], kw))
    else:
        L.append("    fastparquet.write(path, towrite, row_group_offsets=%r, file_scheme=%r, stats=%r%s)" % (
            list(rc["offsets"]), scheme, rc["stats"], kw))
    L.append("finally:")
    L.append("    _w.DATAPAGE_VERSION, _w.MAX_PAGE_SIZE = _old")
    return "\n".join(L)


def _src_code(name):
    return "\n".join(recipe_code(name).split("\n")[:3])


def build_one(fp, root, name, write=True):
    """write=False: only re-attach to a dataset already written under `root` (worker processes)."""
    rc = RECIPES[name]
    env = {"fastparquet": fp, "np": np, "pd": pd, "os": os, "source_frame": source_frame, "D": root}
    exec(recipe_code(name) if write else _src_code(name), env)
    src, path = env["src"], env["path"]
    parts = rc.get("parts", [])
    ix = rc.get("index")
    index_col, index_kind = {None: (None, "none"), "range": (None, "range"), "M": ("t", "M"), "i": ("i", "i"),
                             "tl": ("tl", "Mtz"), "tu": ("tu", "Mtz"), "tk": ("tk", "Mtz")}[ix]
    feats = {"ds": name, "scheme": rc.get("scheme", "simple"), "nparts": len(parts), "v": rc["v"],
             "multipage": bool(rc["page"]), "index": index_kind}
    if rc.get("grow_cat"):
        feats["cat_dictionary_grows"] = True
    return DS(name, path, src, feats, index_col=index_col, index_kind=index_kind)


def build_all(fp, root, names=None):
    return [build_one(fp, root, n) for n in (names or QUICK)]


def foreign_all(names=None):
    out = []
    for n in (names or FOREIGN):
        p = os.path.join(TEST_DATA, n)
        if not os.path.exists(p):
            continue
        if os.path.isfile(p) and os.path.getsize(p) == 0:
            continue
        out.append(DS("foreign:" + n, p, None, {"ds": "foreign:" + n, "scheme": "foreign", "nparts": 0, "v": 0,
                                                 "multipage": False, "index": "file"}, foreign=True))
    return out


# ---------------------------------------------------------------------------------------------
# canonical comparison helpers (plain pandas / numpy; no fastparquet code)

def canon_col(s):
    """Column -> list of python values with None for null/NaN; categoricals by label."""
    if isinstance(s, pd.Index):
        s = s.to_series()
    if isinstance(s.dtype, pd.CategoricalDtype):
        s = s.astype(object)
    isna = pd.isna(s).values
    vals = s.astype(object).values
    out = []
    for v, na in zip(vals, isna):
        if na:
            out.append(None)
        elif isinstance(v, (np.generic,)):
            out.append(v.item())
        elif isinstance(v, (pd.Timestamp,)):
            out.append(v.value if v.unit == "ns" else v.as_unit("ns").value)
        elif isinstance(v, (list, dict, np.ndarray)):
            out.append(repr(v))
        else:
            out.append(v)
    return out


def canon(df, with_index=True, range_index_positional=True):
    """Canonical form of a frame: (column names in order, dtypes as str, values).  An automatically
    generated range index is reduced to its length (labels are positional, not compared)."""
    cols = [str(c) for c in df.columns]
    dts = [str(df[c].dtype) if not isinstance(df[c].dtype, pd.CategoricalDtype) else "category" for c in df.columns]
    vals = [canon_col(df[c]) for c in df.columns]
    ix = None
    if with_index:
        if isinstance(df.index, pd.RangeIndex) and range_index_positional:
            ix = ("range", len(df.index))
        elif isinstance(df.index, pd.MultiIndex):
            ix = ("multi", list(df.index.names), [canon_col(df.index.get_level_values(k)) for k in range(df.index.nlevels)])
        else:
            ix = ("index", df.index.name, str(df.index.dtype) if not isinstance(df.index.dtype, pd.CategoricalDtype)
                  else "category", canon_col(df.index))
    return cols, dts, vals, ix


def diff_frames(a, b, index_values=True, what_a="got", what_b="expected"):
    """None if canonically equal, else a short description of the first difference."""
    ca, cb = canon(a), canon(b)
    if ca[0] != cb[0]:
        return f"columns {what_a}={ca[0]} {what_b}={cb[0]}"
    if len(a) != len(b):
        return f"rows {what_a}={len(a)} {what_b}={len(b)}"
    if ca[1] != cb[1]:
        return f"dtypes {what_a}={ca[1]} {what_b}={cb[1]}"
    for c, va, vb in zip(ca[0], ca[2], cb[2]):
        if va != vb:
            k = next(j for j, (x, y) in enumerate(zip(va, vb)) if x != y) if len(va) == len(vb) else -1
            return f"column {c!r} differs at row {k}: {what_a}={va[k] if k >= 0 else len(va)!r} {what_b}={vb[k] if k >= 0 else len(vb)!r}"
    ia, ib = ca[3], cb[3]
    if ia[0] != ib[0]:
        return f"index kind {what_a}={ia[0]} {what_b}={ib[0]}"
    if ia[0] == "range":
        if ia[1] != ib[1]:
            return f"index length {ia[1]} != {ib[1]}"
    elif ia[0] == "index":
        if ia[1] != ib[1]:
            return f"index name {ia[1]!r} != {ib[1]!r}"
        if ia[2] != ib[2]:
            return f"index dtype {ia[2]} != {ib[2]}"
        if index_values and ia[3] != ib[3]:
            return f"index values differ: {what_a}={ia[3][:6]} {what_b}={ib[3][:6]}"
    else:
        if ia != ib:
            return "multi-index differs"
    return None


def index_alias_ok(fp, kind):
    """Deterministic probe of the known view-aliasing defect of `dataframe.empty` (pandas 3): does a
    write through the returned index view show up in the frame's index?  While it does not, index
    VALUES of a non-datetime, non-categorical named index are uninitialised memory and are not
    compared by the end-to-end contracts (they are checked by the dedicated group of c06)."""
    t = {"i": "int64", "f": "float64", "b": "bool", "O": "O", "M": "M8[ns]", "category": "category"}[kind]
    df, views = fp.dataframe.empty(["int64", "float64"], 4, cols=["a", "b"], index_types=[t], index_names=["k"],
                                   cats={"k": 3} if kind == "category" else None)
    v = views["k"]
    if kind == "M":
        v[:] = np.array([1, 2, 3, 4]).astype("M8[ns]")
        return list(df.index.asi8) == [1, 2, 3, 4]
    if kind == "category":
        v[:] = [2, 1, 0, 2]
        return list(df.index.codes) == [2, 1, 0, 2]
    if kind == "O":
        v[:] = ["p", "q", "r", "s"]
        return list(df.index) == ["p", "q", "r", "s"]
    sent = np.array([3, 0, 2, 1]).astype(t)
    v[:] = sent
    return list(df.index.values) == list(sent)


# ---------------------------------------------------------------------------------------------
# filter semantics (spec side): flat list = AND, list of lists = OR of ANDs, null never satisfies

SCALAR_OPS = ("==", "=", "!=", "<", "<=", ">", ">=")
ALL_OPS = SCALAR_OPS + ("in", "not in")


def normalise(filters):
    """-> list of AND groups (each a list of atoms)."""
    if not filters:
        return [[]]
    if filters[0] and isinstance(filters[0][0], str):
        return [list(filters)]
    return [list(g) for g in filters]


def _pyvals(series):
    """Series -> (list of python values, null mask). Categoricals by label, NaN/None/NA/NaT null."""
    if isinstance(series.dtype, pd.CategoricalDtype):
        series = series.astype(object)
    na = np.asarray(pd.isna(series))
    vals = list(series.astype(object).values)
    return vals, na


def _cmp(op, v, val):
    if op in ("==", "="):
        return v == val
    if op == "!=":
        return v != val
    if op == "<":
        return v < val
    if op == "<=":
        return v <= val
    if op == ">":
        return v > val
    if op == ">=":
        return v >= val
    if op == "in":
        return any(v == x for x in val)
    if op == "not in":
        return not any(v == x for x in val)
    raise ValueError(op)


def atom_sat(series, op, val, null_neg=False):
    """Row-wise truth of `column op val`; a null cell never satisfies (with null_neg=True a null
    satisfies the negative operators != / not in: the pandas/IEEE reading, used only to delimit the
    rows whose verdict depends on the reading)."""
    vals, na = _pyvals(series)
    out = np.zeros(len(vals), dtype=bool)
    for k, (v, isna) in enumerate(zip(vals, na)):
        if isna:
            out[k] = null_neg and op in ("!=", "not in")
        else:
            out[k] = bool(_cmp(op, v, val))
    return out


def filter_sat(frame, filters, colmap=None, null_neg=False, drop_cols=()):
    """Row mask of `frame` rows satisfying the filter program.  `colmap` renames filter columns to
    frame columns (drill: dir0 -> pi).  `drop_cols`: atoms on these columns count as true (used to
    delimit the region of a known defect, never as the oracle)."""
    colmap = colmap or {}
    out = np.zeros(len(frame), dtype=bool)
    for group in normalise(filters):
        g = np.ones(len(frame), dtype=bool)
        for name, op, val in group:
            if name in drop_cols:
                continue
            g &= atom_sat(frame[colmap.get(name, name)], op, val, null_neg=null_neg)
        out |= g
    return out


def concat_frames(ps):
    """pd.concat that keeps an automatic range index automatic and keeps categorical columns categorical
    (pieces of a partitioned dataset carry different category lists; labels are what is compared)."""
    ps = list(ps)
    out = pd.concat(ps, ignore_index=all(isinstance(p.index, pd.RangeIndex) for p in ps))
    for k, c in enumerate(ps[0].columns):
        if all(isinstance(p.iloc[:, k].dtype, pd.CategoricalDtype) for p in ps) and \
                not isinstance(out.iloc[:, k].dtype, pd.CategoricalDtype):
            out[c] = out[c].astype("category")
    if all(isinstance(p.index.dtype, pd.CategoricalDtype) for p in ps) and \
            not isinstance(out.index.dtype, pd.CategoricalDtype):
        out.index = pd.CategoricalIndex(out.index, name=out.index.name)
    return out


class View:
    """A handle + everything the read-side contracts compare against, computed once:
    pieces[j] = pf[j].to_pandas(), full = pf.to_pandas(), offsets, and `base` = the frame on which
    predicates are evaluated, row-aligned with `full` (own datasets: the SOURCE frame re-ordered
    through the unique `rid` column; foreign fixtures: the full read itself)."""

    def __init__(self, fp, ds, **open_kw):
        self.ds = ds
        self.pf = ds.open(fp, **open_kw)
        pf = self.pf
        self.full = pf.to_pandas()
        self.nrg = len(pf.row_groups)
        self.rg_rows = [rg.num_rows for rg in pf.row_groups]
        self.pieces = [pf[j].to_pandas() for j in range(self.nrg)]
        self.offsets = np.concatenate([[0], np.cumsum(self.rg_rows)]).astype(int)
        self.rg_of_row = np.repeat(np.arange(self.nrg), self.rg_rows) if self.nrg else np.zeros(0, int)
        self.colmap = {}
        if ds.src is not None:
            if pf.file_scheme == "drill":
                self.colmap = {"dir%d" % k: p for k, p in enumerate(ds.parts)}
            rid = self.full["rid"].values if "rid" in self.full.columns else None
            if rid is None or sorted(rid.tolist()) != list(range(len(ds.src))):
                raise AssertionError("full read does not carry every source row exactly once (rid)")
            self.base = ds.src.iloc[rid].reset_index(drop=True)
        else:
            self.base = self.full.reset_index(drop=True)
        self.partcols = list(pf.cats)
        self._concat_cache = {}

    def sat(self, filters, **kw):
        return filter_sat(self.base, filters, colmap=self.colmap, **kw)

    def concat(self, J, columns=None):
        key = tuple(J)
        if key not in self._concat_cache:
            ps = [self.pieces[j] for j in J]
            self._concat_cache[key] = concat_frames(ps) if ps else self.full.iloc[:0]
        return self._concat_cache[key]

    def match_row_groups(self, got):
        """Find ascending J with got == concat(pieces[J]) (values, canonical). None if impossible."""
        cg = [canon_col(got[c]) for c in got.columns]
        cps = []
        for p in self.pieces:
            cps.append([canon_col(p[c]) for c in p.columns])
        n = len(got)
        cols_ok = [list(p.columns) == list(got.columns) for p in self.pieces]

        def rec(pos, j0):
            if pos == n:
                return []
            for j in range(j0, self.nrg):
                m = self.rg_rows[j]
                if m == 0 or pos + m > n or not cols_ok[j]:
                    continue
                if all(cg[c][pos:pos + m] == cps[j][c] for c in range(len(cg))):
                    r = rec(pos + m, j + 1)
                    if r is not None:
                        return [j] + r
            return None
        return rec(0, 0)


# ---------------------------------------------------------------------------------------------
# fast equality (vectorised); diff_frames is only used to word the message once this says "differs"

def _arr_equal(a, b):
    """a, b: pandas Series/Index of the same length. dtype, null positions and non-null values equal."""
    da, db = a.dtype, b.dtype
    if isinstance(da, pd.CategoricalDtype) or isinstance(db, pd.CategoricalDtype):
        if not (isinstance(da, pd.CategoricalDtype) and isinstance(db, pd.CategoricalDtype)):
            return False
        a, b = a.astype(object), b.astype(object)
    elif str(da) != str(db):
        return False
    na, nb = np.asarray(pd.isna(a)), np.asarray(pd.isna(b))
    if not np.array_equal(na, nb):
        return False
    av = a.array if hasattr(a, "array") else a
    bv = b.array if hasattr(b, "array") else b
    if hasattr(av, "_mask") and hasattr(av, "_data"):
        return bool(np.array_equal(av._data[~na], bv._data[~nb]))
    av, bv = np.asarray(a), np.asarray(b)
    if av.dtype.kind == "O":
        la, lb = av[~na].tolist(), bv[~nb].tolist()
        try:
            return la == lb
        except (ValueError, TypeError):
            return repr(la) == repr(lb)
    return bool(np.array_equal(av[~na], bv[~nb]))


def frames_equal(a, b, index_values=True):
    if list(map(str, a.columns)) != list(map(str, b.columns)) or len(a) != len(b):
        return False
    for (_, sa), (_, sb) in zip(a.items(), b.items()):
        if not _arr_equal(sa, sb):
            return False
    ra, rb = isinstance(a.index, pd.RangeIndex), isinstance(b.index, pd.RangeIndex)
    if ra or rb:
        return ra and rb
    if isinstance(a.index, pd.MultiIndex) or isinstance(b.index, pd.MultiIndex):
        return diff_frames(a, b, index_values) is None
    if a.index.name != b.index.name:
        return False
    if index_values:
        return _arr_equal(a.index, b.index)
    return str(a.index.dtype) == str(b.index.dtype) or (
        isinstance(a.index.dtype, pd.CategoricalDtype) and isinstance(b.index.dtype, pd.CategoricalDtype))


def explain_diff(a, b, index_values=True, **kw):
    """None if equal; else a message (fast path first)."""
    if frames_equal(a, b, index_values):
        return None
    return diff_frames(a, b, index_values, **kw) or "frames differ (dtype/index detail)"
