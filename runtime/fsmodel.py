"""Shared helpers of the history / filesystem-effect bounded modules (C07, C09, C16, C18, C19).

Everything here is independent of fastparquet (oracle side): directory snapshots and their
comparison, file hashing, Parquet framing read straight from the bytes, value normalisation of
pandas frames into plain python rows, and the small frame alphabet the history enumerators share.
"""
import hashlib
import math
import os
import struct

import numpy as np
import pandas as pd

SUMMARY = ("_metadata", "_common_metadata")
WRITE_MODE_CHARS = ("w", "a", "+", "x")


# ---------------------------------------------------------------------------- files / directories
def file_bytes(path):
    with open(path, "rb") as f:
        return f.read()


def file_hash(path):
    return hashlib.sha256(file_bytes(path)).hexdigest()


def snapshot(root, with_bytes=False):
    """{relative posix path: (size, sha256[, bytes])} of every regular file below root
    (root may also be a single file: then {'': ...})."""
    out = {}
    if os.path.isfile(root):
        b = file_bytes(root)
        out[""] = (len(b), hashlib.sha256(b).hexdigest()) + ((b,) if with_bytes else ())
        return out
    for r, _ds, fs in os.walk(root):
        for fn in fs:
            p = os.path.join(r, fn)
            rel = os.path.relpath(p, root).replace(os.sep, "/")
            b = file_bytes(p)
            out[rel] = (len(b), hashlib.sha256(b).hexdigest()) + ((b,) if with_bytes else ())
    return out


def snap_diff(before, after, ignore=()):
    """-> (added, removed, changed) lists of relative paths; basenames in `ignore` are skipped."""
    def keep(p):
        return p.rsplit("/", 1)[-1] not in ignore
    added = sorted(p for p in after if p not in before and keep(p))
    removed = sorted(p for p in before if p not in after and keep(p))
    changed = sorted(p for p in before if p in after and before[p][:2] != after[p][:2] and keep(p))
    return added, removed, changed


def is_summary(rel):
    return rel.rsplit("/", 1)[-1] in SUMMARY


def data_files(snap):
    return {p: v for p, v in snap.items() if not is_summary(p)}


def is_write_mode(mode):
    return any(ch in mode for ch in WRITE_MODE_CHARS)


# ---------------------------------------------------------------------------- parquet framing
class FramingError(ValueError):
    pass


def footer_span(b, metadata_file=False):
    """(footer_start, footer_len) of a Parquet file given as bytes, read from the trailer only:
    ... footer ++ le32(len) ++ 'PAR1'.  Raises FramingError when the trailer is not well-formed."""
    if len(b) < 12 or b[-4:] != b"PAR1" or b[:4] != b"PAR1":
        raise FramingError("magic missing (len %d, head %r, tail %r)" % (len(b), b[:4], b[-4:]))
    n = struct.unpack("<I", b[-8:-4])[0]
    start = len(b) - 8 - n
    if start < 4:
        raise FramingError("footer length %d larger than file %d" % (n, len(b)))
    if metadata_file and start != 4:
        raise FramingError("metadata-only file: footer starts at %d, not 4" % start)
    return start, n


def decode_footer(b, strict=True):
    """IDL-driven strict decode of the FileMetaData footer; also demands that the struct ends
    exactly where the length field says (no slack, no trailing garbage)."""
    from spec import thrift_idl
    idl = thrift_idl.load()
    start, n = footer_span(b)
    foot = bytes(b[start:start + n])
    fmd, p = thrift_idl.dec(idl, "FileMetaData", foot, 0, strict=strict)
    if p != n:
        raise FramingError("footer struct ends at %d but length field says %d" % (p, n))
    return fmd


def footer_summary(fmd):
    """Things an update of key-value metadata must leave alone, from a spec-decoded footer."""
    return {
        "version": fmd.get("version"),
        "num_rows": fmd.get("num_rows"),
        "schema": fmd.get("schema"),
        "row_groups": fmd.get("row_groups"),
        "created_by": fmd.get("created_by"),
        "column_orders": fmd.get("column_orders"),
    }


def footer_kv(fmd):
    """ordered list of (key bytes, value bytes|None)"""
    return [(kv.get("key"), kv.get("value")) for kv in (fmd.get("key_value_metadata") or [])]


# ---------------------------------------------------------------------------- value normalisation
NULL = None


def norm_value(v):
    """python-level canonical value: nulls (None/NaN/NaT/NA) -> None, numpy scalars -> python."""
    if v is None or v is pd.NaT or v is pd.NA:
        return NULL
    if isinstance(v, (float, np.floating)):
        return NULL if math.isnan(v) else float(v)
    if isinstance(v, (bool, np.bool_)):
        return bool(v)
    if isinstance(v, np.integer):
        return int(v)
    if isinstance(v, (pd.Timestamp, np.datetime64)):
        t = pd.Timestamp(v)
        return NULL if t is pd.NaT else ("ts", t.value)
    if isinstance(v, np.str_):
        return str(v)
    if isinstance(v, np.bytes_):
        return bytes(v)
    return v


def column_values(df, col):
    s = df[col]
    if isinstance(s.dtype, pd.CategoricalDtype):
        # never materialise a Categorical whose codes point outside its labels: pandas' take does
        # not bounds-check and reads wild pointers (seen as segfaults) - report it instead
        codes = np.asarray(s.cat.codes)
        ncat = len(s.cat.categories)
        if len(codes) and (codes.max() >= ncat or codes.min() < -1):
            raise ValueError("categorical column %r: codes %s outside its %d labels %s" % (
                col, sorted(set(int(c) for c in codes if c >= ncat or c < -1)), ncat, list(s.cat.categories)[:6]))
        s = s.astype(object)
    return [norm_value(v) for v in s.tolist()]


def rows_of(df, cols=None):
    """list of tuples (one per row) over `cols` (default: sorted column names)"""
    cols = sorted(df.columns) if cols is None else list(cols)
    if not cols:
        return [() for _ in range(len(df))]
    return list(zip(*[column_values(df, c) for c in cols])) if len(df) else []


def _key(row):
    return tuple((0, "") if v is None else (1, repr(v)) for v in row)


def same_multiset(a, b):
    return sorted(a, key=_key) == sorted(b, key=_key)


def describe_diff(got, want, limit=3):
    if len(got) != len(want):
        return f"row count {len(got)} != expected {len(want)}; got[:{limit}]={got[:limit]} want[:{limit}]={want[:limit]}"
    bad = [(i, g, w) for i, (g, w) in enumerate(zip(got, want)) if g != w]
    return f"{len(bad)} rows differ, first: " + "; ".join(f"row {i}: got {g} want {w}" for i, g, w in bad[:limit])


# ---------------------------------------------------------------------------- frame alphabet
def mkcat(values, cats):
    return pd.Categorical(values, categories=cats)


def base_frame(start, n, nulls="some", cats=("u", "v"), cat_use=None, parts=2, idx=None):
    """Schema-stable frame of the history modules:
         x int64 (unique row id start..start+n-1), f float64, s object(str), c category,
         p int64 (partition candidate, `parts` distinct values), q str (second partition candidate).
       nulls: 'none' | 'some' | 'all'  (in f and s only; partition columns never hold nulls)
       cats: category labels of column c;  cat_use: indices into cats used by the rows (cycled)
       idx: None | 'dt' | 'int'  -> named index 'idx' (datetime64 / int64), unique per row id
    """
    ids = np.arange(start, start + n, dtype="int64")
    f = ids.astype("float64") / 4.0 + 0.5
    s = np.array([("s%d" % i if i % 3 else "été %d" % i) for i in ids], dtype=object) if n else np.array([], dtype=object)
    if nulls == "some" and n:
        f = f.copy()
        f[::2] = np.nan
        s = s.copy()
        s[1::2] = None
    elif nulls == "all" and n:
        f = np.full(n, np.nan)
        s = np.array([None] * n, dtype=object)
    cats = list(cats)
    use = list(cat_use) if cat_use is not None else list(range(len(cats)))
    c = mkcat([cats[use[i % len(use)]] for i in range(n)], cats)
    df = pd.DataFrame({
        "x": ids,
        "f": f,
        "s": pd.Series(s, dtype=object),
        "c": c,
        "p": (ids % parts).astype("int64") + 1,
        "q": pd.Series([("a" if (i // 2) % 2 == 0 else "b") for i in ids], dtype=object),
    })
    if idx == "dt":
        df.index = pd.Index(pd.to_datetime("2020-01-01") + pd.to_timedelta(ids, unit="h"), name="idx")
    elif idx == "int":
        df.index = pd.Index(ids * 10 + 7, name="idx")
    return df


# ---------------------------------------------------------------------------- replay snippets
_SRC_CACHE = {}


def _core_source(path):
    """text between the two core markers of a module file"""
    if path not in _SRC_CACHE:
        text = open(path).read()
        begin, end = "# ==== core " + "begin", "# ==== core " + "end"
        if begin in text:
            text = text.split(begin, 1)[1].split(end, 1)[0]
        _SRC_CACHE[path] = text
    return _SRC_CACHE[path]


def build_snippet(module_file, spec, tail):
    """Self-contained replay program: this file's source + the module's core section inlined,
    the case spec as JSON, and `tail` (python text that must set VIOLATED)."""
    import json
    here = os.path.abspath(__file__)
    return "\n".join([
        "import sys, os, json, tempfile, shutil",
        "sys.path.insert(0, %r)  # only needed by the strict footer decoder (spec.thrift_idl)" % os.path.dirname(os.path.dirname(here)),
        "import fastparquet as fp",
        "# ---- runtime/fsmodel.py (inlined)",
        _core_source(here).split("# " + "-" * 76 + " replay snippets")[0],
        "# ---- %s core (inlined)" % os.path.basename(module_file),
        _core_source(module_file),
        "SPEC = json.loads(%r)" % json.dumps(spec),
        tail,
    ])


# ---------------------------------------------------------------------------- process pool
def _pool_init(repo):
    import sys
    if repo not in sys.path:
        sys.path.insert(0, repo)


def pool_map(fn, items, workers=None, chunksize=4):
    """ordered map over a fork-based process pool (workers import fastparquet from vlib.common.REPO)"""
    import concurrent.futures as cf
    import multiprocessing as mp
    from vlib.common import REPO
    workers = workers or min(14, os.cpu_count() or 2)
    items = list(items)
    if workers <= 1 or len(items) <= 1:
        return [fn(i) for i in items]
    with cf.ProcessPoolExecutor(max_workers=workers, mp_context=mp.get_context("fork"),
                                initializer=_pool_init, initargs=(REPO,)) as ex:
        return list(ex.map(fn, items, chunksize=chunksize))
