"""C04 bounded stand-in: column statistics are exact.

Post-condition on the real `fastparquet.write` (deal.ensure on a wrapper), evaluated after every write
that returns.  For each row group x written column:

  raw      the Statistics struct decoded from the raw footer bytes with the IDL-driven Thrift decoder of
           /verif/spec (not fastparquet's), min/max decoded from their PLAIN bytes per physical +
           converted/logical type of the schema element;
  user     ParquetFile.statistics (min / max / null_count lists) and
           fastparquet.api.sorted_partitioned_columns(pf);
  oracle   min / max / null count recomputed from the input frame slice of that row group with plain
           numpy / pandas / python under the Parquet ordering of the type: signed or unsigned integer
           order, IEEE order with NaN excluded (-0.0 == 0.0), instants for (tz-aware) timestamps,
           unsigned byte-wise order of the UTF-8 / raw bytes for text and bytes, False < True, and for
           a categorical column the order of the VALUES present (not of the category codes).

Clauses (each its own bounded group):
  c04.stats.raw     present raw min/max equal the oracle; a chunk without any ordered non-null value
                    carries no min/max; null_count equals the number of cells stored as null
  c04.stats.user    every non-None entry of ParquetFile.statistics equals the oracle
                    (a None entry = "unknown" is always sound and accepted)
  c04.stats.sorted  a column listed by sorted_partitioned_columns really is sorted across row groups
                    (max of group i < min of group i+1 on the DATA) and its listed bounds equal the oracle
  c04.stats.exposed a bound the footer CARRIES is a bound the user is shown: when every row group's chunk of a
                    column carries a decodable min (max), ParquetFile.statistics has a non-None entry per row group
                    for it (equality with the stored value is c04.stats.user's business); when in addition the
                    stored bounds satisfy min <= max per group and max of group i < min of group i+1, the column is
                    listed by sorted_partitioned_columns with exactly those bounds.  ("None = unknown" stays
                    acceptable only where some row group's chunk carries no such bound.)  This is the clause that
                    sees a FALSY stored bound - the empty string / empty bytes, the minimum of every text or bytes
                    chunk that holds '' / b'' - being mistaken for an absent one.

  c04.stats.stable  statistics of a handle are not changed by queries: on ONE handle, sorted_partitioned_columns(h,
                    filters=F1) - F1 selecting a strict, non-empty subset of the row groups -, then h.statistics,
                    sorted_partitioned_columns(h), sorted_partitioned_columns(h, filters=F2) and h.statistics again
                    each equal the answer of a FRESH handle of the same dataset (F1 / F2 are built from the exposed
                    bounds of a column and kept when a fresh handle's filter_row_groups selects such a subset).

Scenario class `<text|bytes>+long`: text / bytes cells of 75 .. 205 bytes that share their first 70 bytes (long URLs)
and differ only behind them, statistics forced on, every option tuple (several row groups): the stored max / min must
be the real extremes (in particular max >= every stored value under byte-wise order), not a prefix of them.

Scenario class added for the exposed clause (dtypes `<text|bytes>+empties`): text (str / object / string dtype) and
bytes columns whose leading third of the rows is '' / b'' and whose other values are non-empty, so that under
the row-group splits of the option tuples there are chunks with min == max == '' (all-empty chunk), chunks with
min == '' < max, all-empty single-row-group files, the same next to nulls, and - with ascending value order - a
column that IS sorted across row groups starting with an all-empty group.

Excluded inputs (the stored values differ from the input by C01 known findings, so "the value actually
stored" cannot be derived from the input): timedelta64[ms|s]; times='int96' with a datetime64 unit other
than ns; datetime64[s] holding NaT written REQUIRED.
"""
import json
import os
import shutil
import struct
import time
import warnings

import deal
import numpy as np
import pandas as pd

from runtime import datasets as D
from runtime.harness import Case, import_fastparquet, tmpdir
from spec import thrift_idl

G_RAW, G_USER, G_SORTED = "c04.stats.raw", "c04.stats.user", "c04.stats.sorted"
G_EXPOSED = "c04.stats.exposed"
G_STABLE = "c04.stats.stable"
GROUPS = (G_RAW, G_USER, G_SORTED, G_EXPOSED, G_STABLE)
CONTRACT = {
    G_RAW: "ensure(write): for every row group x column the footer Statistics (decoded independently) carry "
           "min/max == oracle(min/max of the stored non-null values under the Parquet order of the type) or no "
           "min/max when the chunk has no ordered non-null value; null_count == number of null cells",
    G_USER: "ensure(write): every non-None entry of ParquetFile.statistics['min'|'max'|'null_count'] equals the oracle",
    G_SORTED: "ensure(write): c in sorted_partitioned_columns(pf) => data of c is strictly increasing across row "
              "groups and the listed min/max equal the oracle",
    G_STABLE: "ensure(write): on one handle h, after sorted_partitioned_columns(h, filters=F1) with F1 selecting a strict "
              "subset of the row groups: h.statistics == fresh.statistics, sorted_partitioned_columns(h) == the fresh "
              "handle's, sorted_partitioned_columns(h, filters=F2) == the fresh handle's (queries do not change what a "
              "handle reports)",
    G_EXPOSED: "ensure(write): for every column and which in (min, max): every row group's chunk carries a decodable "
               "`which` (an EMPTY byte string is a bound like any other) => ParquetFile.statistics[which][column] has "
               "one non-None entry per row group; and stored min <= max per group with max[i] < min[i+1] for all i "
               "=> column in sorted_partitioned_columns(pf) with those bounds",
}
ORDERS = ["scrambled", "ascending", "descending", "constant"]
EXCLUDED_DTYPES = ["timedelta64[ms]", "timedelta64[s]"]
NS_PER = {"s": 10 ** 9, "ms": 10 ** 6, "us": 10 ** 3, "ns": 1}


# ---- the frames ----------------------------------------------------------------------------------------
def _value_sort_key(v):
    if isinstance(v, str):
        return v.encode("utf8")
    return v


def reorder(s, order):
    """Rearrange the non-null values of a column (null positions stay where they are)."""
    if order == "scrambled" or len(s) == 0:
        return s
    mask = np.asarray(s.isna())
    if mask.all():
        return s
    name = s.name
    if isinstance(s.dtype, pd.CategoricalDtype):
        vals = [v for v in s[~mask]]
        vals = _arranged(vals, order)
        out = pd.Series(pd.Categorical([None] * len(s), dtype=s.dtype))
        arr = out.array
        arr[np.flatnonzero(~mask)] = vals
        out = pd.Series(arr, name=name)
        return out
    nn = s[~mask]
    if s.dtype == object or str(s.dtype) in ("str", "string"):
        try:
            vals = _arranged(list(nn), order)
        except TypeError:          # unorderable objects (json): leave as is
            return s
        out = s.copy()
        idx = np.flatnonzero(~mask)
        for i, v in zip(idx, vals):
            out.iat[i] = v
        return out
    if order == "constant":
        srt = pd.Series([nn.iloc[len(nn) // 2]] * len(nn), dtype=s.dtype)
    else:
        if s.dtype.kind == "f" and isinstance(s.dtype, np.dtype):
            srt = nn.sort_values(ascending=order == "ascending")     # NaN cannot be here (they are the nulls)
        else:
            srt = nn.sort_values(ascending=order == "ascending")
    out = s.copy()
    out[~mask] = srt.to_numpy() if isinstance(s.dtype, np.dtype) else srt.array
    out.name = name
    return out


def _arranged(vals, order):
    if order == "constant":
        return [vals[len(vals) // 2]] * len(vals)
    return sorted(vals, key=_value_sort_key, reverse=order == "descending")


EMPTIES = "+empties"
EMPTY_BOUND_DTYPES = [d + EMPTIES for d in ("str", "object_str", "string", "bytes")]


LONG = "+long"
LONG_VALUE_DTYPES = [d + LONG for d in ("str", "object_str", "string", "bytes")]
LONG_PREFIX = "https://example.org/" + "p" * 50          # 70 bytes shared by every cell


def base_dtype(dt):
    for suffix in (EMPTIES, LONG):
        if dt.endswith(suffix):
            return dt[:-len(suffix)]
    return dt


def long_series(dtype, n, nulls):
    """Text / bytes cells of 75..205 bytes with a common 70-byte prefix, differing only behind it."""
    base = base_dtype(dtype)
    vals = [LONG_PREFIX + "/%04d" % ((i * 7919) % 1009) + "é" * (i % 5) + "x" * ((i * 13) % 127) for i in range(n)]
    if base == "bytes":
        vals = [v.encode("utf8") for v in vals]
    s = pd.Series(vals, dtype={"str": "str", "string": "string"}.get(base, object))
    m = D.null_mask(n, nulls)
    if m.any():
        if base in ("object_str", "bytes"):
            s = s.copy()
            s[m] = None
        else:
            s = s.mask(m)
    s.name = "x"
    return s


def empties_series(dtype, n, nulls):
    """Text / bytes column whose first max(n // 3, 1) rows are the EMPTY value and whose other values are
    non-empty and distinct from each other where the pool allows (null pattern applied on top)."""
    base = base_dtype(dtype)
    empty = b"" if base == "bytes" else ""
    fill = b"\x01" if base == "bytes" else "e"
    vals = [v if len(v) else fill for v in D.values(base, n)]
    k = max(n // 3, 1)
    vals[:k] = [empty] * min(k, n)
    s = pd.Series(vals, dtype={"str": "str", "string": "string"}.get(base, object))
    m = D.null_mask(n, nulls)
    if m.any():
        if base in ("object_str", "bytes"):
            s = s.copy()
            s[m] = None
        else:
            s = s.mask(m)
    s.name = "x"
    return s


def base_frame(f):
    if f["dtype"].endswith((EMPTIES, LONG)):
        mk = empties_series if f["dtype"].endswith(EMPTIES) else long_series
        df = pd.DataFrame({"x": mk(f["dtype"], f["rows"], f.get("nulls", "none"))})
        if f.get("index", "range") != "range":
            df.index = D.make_index(f["index"], f["rows"])
        return df
    return D.frame_from_features(f)


def frame_from_features(f):
    df = base_frame(f)
    order = f.get("order", "scrambled")
    if order != "scrambled":
        df = pd.DataFrame({c: reorder(df[c], order) for c in df.columns}, index=df.index)
    return df


# ---- oracle ----------------------------------------------------------------------------------------------
def _canon_scalar(v):
    """Logical value -> (kind, comparable python value)."""
    if isinstance(v, (bool, np.bool_)):
        return ("bool", bool(v))
    if isinstance(v, np.timedelta64):          # (a subclass of np.signedinteger: test before the integers)
        unit = np.datetime_data(v.dtype)[0]
        return ("td_ns", int(v.view("int64")) * NS_PER[unit])
    if isinstance(v, (int, np.integer)):
        return ("int", int(v))
    if isinstance(v, (float, np.floating)):
        return ("float", float(v))
    if isinstance(v, str):
        return ("bytes", v.encode("utf8"))
    if isinstance(v, (bytes, bytearray, np.bytes_)):
        return ("bytes", bytes(v))
    if isinstance(v, pd.Timestamp):
        return ("ts_ns", int(v.value))              # .value is nanoseconds since the epoch (UTC instant)
    if isinstance(v, np.datetime64):
        unit = np.datetime_data(v.dtype)[0]
        return ("ts_ns", int(v.view("int64")) * NS_PER[unit])
    if isinstance(v, pd.Timedelta):
        return ("td_ns", int(v.value))
    if isinstance(v, np.timedelta64):
        unit = np.datetime_data(v.dtype)[0]
        return ("td_ns", int(v.view("int64")) * NS_PER[unit])
    return ("other", v)


def oracle_column(s, optional):
    """Expected statistics of one chunk (Series slice s of the input, column written OPTIONAL or not).
    -> dict(null_count, has_order, min, max) with min/max as (kind, value) or None when the chunk has no
    ordered non-null value."""
    n = len(s)
    dt = s.dtype
    isna = np.asarray(s.isna())
    nulls = int(isna.sum()) if optional else 0
    res = {"null_count": nulls, "min": None, "max": None, "kind": None}
    if isinstance(dt, pd.CategoricalDtype):
        vals = [v for v in s[~isna]]          # the VALUES, not the codes
    elif dt == object or str(dt) in ("str", "string"):
        vals = [v for v in s[~isna]]
    elif dt.kind in "mM" or isinstance(dt, pd.DatetimeTZDtype):
        x = s[~isna]
        if isinstance(dt, pd.DatetimeTZDtype):
            x = x.dt.tz_convert("UTC").dt.tz_localize(None)
        unit = np.datetime_data(x.to_numpy().dtype)[0]
        ints = x.to_numpy().view("int64")
        if len(ints):
            kind = "ts_ns" if dt.kind == "M" else "td_ns"
            res["min"] = (kind, int(ints.min()) * NS_PER[unit])
            res["max"] = (kind, int(ints.max()) * NS_PER[unit])
        return res
    elif isinstance(dt, np.dtype):
        a = s.to_numpy()
        if dt.kind == "f":
            a = a[~np.isnan(a)]                # NaN has no place in the order
        if len(a):
            res["min"], res["max"] = _canon_scalar(a.min()), _canon_scalar(a.max())
        return res
    else:                                      # masked Int*/UInt*/boolean
        a = s[~isna].to_numpy(dtype=dt.numpy_dtype)
        if len(a):
            res["min"], res["max"] = _canon_scalar(a.min()), _canon_scalar(a.max())
        return res
    # python objects: text (UTF-8 byte order), bytes (byte order), numbers; json has no order we can state
    if not vals:
        return res
    if any(isinstance(v, (dict, list)) for v in vals):
        res["kind"] = "json"
        res["members"] = vals
        return res
    canon = [_canon_scalar(v) for v in vals]
    kinds = {k for k, _ in canon}
    if len(kinds) != 1:
        res["kind"] = "unordered"
        return res
    if "float" in kinds:
        canon = [c for c in canon if c[1] == c[1]]
        if not canon:
            return res
    res["min"] = min(canon, key=lambda c: c[1])
    res["max"] = max(canon, key=lambda c: c[1])
    return res


# ---- independent decoding of the footer -----------------------------------------------------------------
def read_footer(path, hive):
    fn = os.path.join(path, "_metadata") if hive else path
    with open(fn, "rb") as f:
        data = f.read()
    if data[-4:] != b"PAR1":
        raise ValueError("no PAR1 trailer")
    n = struct.unpack("<I", data[-8:-4])[0]
    return data[-8 - n:-8]


def decode_stat(raw, se, idl):
    """PLAIN-encoded statistic bytes -> (kind, value) per physical + converted/logical type."""
    tname = {v: k for k, v in idl.enums["Type"].items()}[se["type"]]
    conv = {v: k for k, v in idl.enums["ConvertedType"].items()}.get(se.get("converted_type"))
    lt = se.get("logicalType") or {}
    if tname == "BOOLEAN":
        if len(raw) != 1:
            raise ValueError(f"BOOLEAN stat of {len(raw)} bytes")
        return ("bool", bool(raw[0] & 1))
    if tname in ("INT32", "INT64"):
        size = 4 if tname == "INT32" else 8
        if len(raw) != size:
            raise ValueError(f"{tname} stat of {len(raw)} bytes")
        unsigned = conv in ("UINT_8", "UINT_16", "UINT_32", "UINT_64")
        v = int.from_bytes(raw, "little", signed=not unsigned)
        ts = lt.get("TIMESTAMP")
        if ts is not None:
            unit = [k for k, x in (ts.get("unit") or {}).items() if x is not None][0]
            return ("ts_ns", v * {"MILLIS": 10 ** 6, "MICROS": 10 ** 3, "NANOS": 1}[unit])
        if conv == "TIMESTAMP_MILLIS":
            return ("ts_ns", v * 10 ** 6)
        if conv == "TIMESTAMP_MICROS":
            return ("ts_ns", v * 10 ** 3)
        if conv == "TIME_MICROS":
            return ("td_ns", v * 10 ** 3)
        if conv == "TIME_MILLIS":
            return ("td_ns", v * 10 ** 6)
        return ("int", v)
    if tname == "INT96":
        if len(raw) != 12:
            raise ValueError(f"INT96 stat of {len(raw)} bytes")
        ns = int.from_bytes(raw[:8], "little", signed=True)
        day = int.from_bytes(raw[8:], "little", signed=True)
        return ("ts_ns", (day - 2440588) * 86400 * 10 ** 9 + ns)
    if tname == "FLOAT":
        return ("float", float(struct.unpack("<f", raw)[0]))
    if tname == "DOUBLE":
        return ("float", float(struct.unpack("<d", raw)[0]))
    return ("bytes", bytes(raw))          # BYTE_ARRAY / FIXED_LEN_BYTE_ARRAY: no length prefix in statistics


def same_stat(got, want):
    if got is None or want is None:
        return got is want
    (gk, gv), (wk, wv) = got, want
    if wk == "int" and gk == "float" or wk == "float" and gk == "int":
        return float(gv) == float(wv)
    return gk == wk and gv == wv


# ---- the post-condition ------------------------------------------------------------------------------------
def written_frame(df, write_index):
    """The columns the writer stores, in order: index columns first (as reset_index names them)."""
    idx, cols = D._written_columns(df, write_index)
    out = {}
    if idx:
        if isinstance(df.index, pd.MultiIndex):
            for name, lv in zip(idx, range(df.index.nlevels)):
                out[name] = pd.Series(df.index.get_level_values(lv)).reset_index(drop=True)
        else:
            out[idx[0]] = pd.Series(df.index).reset_index(drop=True)
    for c in df.columns:
        out[str(c)] = df[c].reset_index(drop=True)
    return out, idx


def _canon_answer(x):
    """statistics / sorted_partitioned_columns answer -> comparable plain structure"""
    if isinstance(x, dict):
        return {str(k): _canon_answer(v) for k, v in x.items()}
    if isinstance(x, (list, tuple)):
        return [_canon_answer(v) for v in x]
    if x is None:
        return None
    k, v = _canon_scalar(x)
    if k == "float" and v != v:
        return ("float", "nan")
    if k == "other":
        return ("other", repr(v))
    return (k, v)


def subset_filters(fp, path, user, nrg):
    """Filters built from the exposed bounds that select a strict, non-empty subset of the row groups ON A FRESH
    HANDLE (candidates that raise or select nothing / everything are dropped).  -> [(filters, selected indices)]"""
    out, seen = [], set()
    if nrg < 2:
        return out
    fresh = fp.ParquetFile(path)
    for c in user.get("min", {}):
        lo, hi = user["min"].get(c), user["max"].get(c)
        if not lo or not hi or len(lo) != nrg or len(hi) != nrg or any(v is None for v in lo + hi):
            continue
        for F in ([(c, "<=", hi[0])], [(c, ">=", lo[-1])], [(c, "==", lo[nrg // 2])], [(c, ">", hi[0])], [(c, "<", lo[-1])]):
            try:
                sel = tuple(fp.api.filter_row_groups(fresh, F, as_idx=True))
            except Exception:
                continue
            if 0 < len(sel) < nrg and sel not in seen:
                seen.add(sel)
                out.append((F, sel))
        if len(out) >= 3:
            break
    return out


def check_stable(fp, path, user, nrg, region=None):
    """-> (None | what differs, number of comparisons).  region['collapsed'] = True when the case lies in the region
    of the known defect "min/max list of a column collapsed to [None] + filters selecting a row group of index >= 1"."""
    cands = subset_filters(fp, path, user, nrg)
    if not cands:
        return None, 0
    api = fp.api
    collapsed = any(isinstance(l, list) and len(l) != nrg for st in ("min", "max") for l in user.get(st, {}).values())
    if region is not None:
        region["collapsed"] = collapsed and any(max(sel) >= 1 for _, sel in cands)
    ref_stats = _canon_answer(fp.ParquetFile(path).statistics)
    ref_spc = _canon_answer(api.sorted_partitioned_columns(fp.ParquetFile(path)))
    n = 0
    for k, (F1, sel1) in enumerate(cands):
        F2, sel2 = cands[(k + 1) % len(cands)]
        h = fp.ParquetFile(path)
        first = _canon_answer(api.sorted_partitioned_columns(h, filters=F1))
        want1 = _canon_answer(api.sorted_partitioned_columns(fp.ParquetFile(path), filters=F1))
        want2 = _canon_answer(api.sorted_partitioned_columns(fp.ParquetFile(path), filters=F2))
        steps = [("sorted_partitioned_columns(h, filters=F1)", first, want1),
                 ("h.statistics after it", lambda: _canon_answer(h.statistics), ref_stats),
                 ("sorted_partitioned_columns(h) after it", lambda: _canon_answer(api.sorted_partitioned_columns(h)), ref_spc),
                 ("sorted_partitioned_columns(h, filters=F2) after it",
                  lambda: _canon_answer(api.sorted_partitioned_columns(h, filters=F2)), want2),
                 ("sorted_partitioned_columns(h, filters=F1) again",
                  lambda: _canon_answer(api.sorted_partitioned_columns(h, filters=F1)), want1),
                 ("h.statistics at the end", lambda: _canon_answer(h.statistics), ref_stats)]
        for label, got, want in steps:
            try:
                got = got() if callable(got) else got
            except Exception as e:
                return f"F1={F1!r} (row groups {list(sel1)}), F2={F2!r}: {label} raised {type(e).__name__}: {str(e)[:100]}", n
            n += 1
            if got != want:
                return (f"F1={F1!r} selects row groups {list(sel1)} of {nrg}, F2={F2!r} selects {list(sel2)}: {label} differs "
                        f"from a fresh handle's answer: {str(got)[:160]} != {str(want)[:160]}"), n
    return None, n


def check_statistics(fp, path, df, options):
    """-> dict clause -> None | what differs, plus counters."""
    idl = thrift_idl.load()
    hive = options.get("file_scheme", "simple") != "simple"
    verdict = {G_RAW: None, G_USER: None, G_SORTED: None, G_EXPOSED: None, G_STABLE: None, "compared": 0, "listed": 0,
               "exposed": 0, "stable": 0}
    cols, idx_cols = written_frame(df, options.get("write_index"))
    fmd, _ = thrift_idl.dec(idl, "FileMetaData", read_footer(path, hive), strict=False)
    schema = {se["name"].decode() if isinstance(se["name"], bytes) else se["name"]: se for se in fmd["schema"][1:]}
    rgs = fmd.get("row_groups") or []
    sizes = [rg["num_rows"] for rg in rgs]
    if sum(sizes) != len(df):
        verdict[G_RAW] = f"row groups hold {sum(sizes)} rows, the frame has {len(df)}"
        return verdict
    has_nulls = options.get("has_nulls", True)
    pf = fp.ParquetFile(path)
    user = pf.statistics
    spc = fp.api.sorted_partitioned_columns(pf)
    expected, rawdec = {}, {}
    start = 0
    for gi, (rg, z) in enumerate(zip(rgs, sizes)):
        for cc in rg["columns"]:
            md = cc["meta_data"]
            name = ".".join(p.decode() if isinstance(p, bytes) else p for p in md["path_in_schema"])
            if name not in cols:
                verdict[G_RAW] = verdict[G_RAW] or f"unexpected column {name!r} in row group {gi}"
                continue
            s = cols[name].iloc[start:start + z]
            se = schema[name]
            # OPTIONAL per the documented meaning of has_nulls (the footer field itself is C02/C10 business:
            # has_nulls='infer' writes it with a Thrift BOOL wire type)
            optional = D.column_optional(has_nulls, s, name)
            exp = oracle_column(s, optional)
            expected.setdefault(name, []).append(exp)
            st = md.get("statistics") or {}
            dec = {"null_count": st.get("null_count"), "min": None, "max": None, "json": exp["kind"] == "json"}
            for which in ("min", "max"):
                raw = st.get(which) if st.get(which) is not None else st.get(which + "_value")
                if raw is not None:
                    try:
                        dec[which] = decode_stat(raw, se, idl)
                    except Exception:
                        dec[which] = ("undecodable", raw)
            rawdec.setdefault(name, []).append(dec)
            where = f"row group {gi} column {name!r}"
            # -- raw clause
            if verdict[G_RAW] is None:
                if st.get("null_count") is not None and st["null_count"] != exp["null_count"]:
                    verdict[G_RAW] = f"{where}: null_count {st['null_count']} but {exp['null_count']} cells are null"
                for which in ("min", "max"):
                    raw = st.get(which) if st.get(which) is not None else st.get(which + "_value")
                    if raw is None:
                        continue
                    if exp["kind"] == "json":
                        try:
                            val = json.loads(raw)
                        except Exception:
                            verdict[G_RAW] = verdict[G_RAW] or f"{where}: {which} {raw!r} is not JSON"
                            continue
                        if not any(val == m for m in exp["members"]):
                            verdict[G_RAW] = verdict[G_RAW] or f"{where}: {which} {raw!r} is no value of the chunk"
                        verdict["compared"] += 1
                        continue
                    if exp[which] is None:
                        verdict[G_RAW] = verdict[G_RAW] or (
                            f"{where}: carries {which}={raw!r} but the chunk has no ordered non-null value")
                        continue
                    try:
                        got = decode_stat(raw, se, idl)
                    except Exception as e:
                        verdict[G_RAW] = verdict[G_RAW] or f"{where}: {which} bytes {raw!r} undecodable: {e}"
                        continue
                    verdict["compared"] += 1
                    if not same_stat(got, exp[which]):
                        verdict[G_RAW] = verdict[G_RAW] or (
                            f"{where}: {which} {got[1]!r} ({got[0]}) but the data has {exp[which][1]!r}")
                if verdict[G_RAW] is None and exp["kind"] != "json":
                    lo = st.get("min") if st.get("min") is not None else st.get("min_value")
                    hi = st.get("max") if st.get("max") is not None else st.get("max_value")
                    if lo is not None and hi is not None:
                        a, b = decode_stat(lo, se, idl), decode_stat(hi, se, idl)
                        if a[1] > b[1]:
                            verdict[G_RAW] = f"{where}: min {a[1]!r} > max {b[1]!r}"
        start += z
    # -- user clause: what ParquetFile.statistics shows must be what the stored statistics denote
    for name, decs in rawdec.items():
        if verdict[G_USER] is not None:
            break
        for which in ("min", "max", "null_count"):
            lst = user.get(which, {}).get(name)
            if lst is None:
                continue
            if len(lst) != len(decs):
                if all(v is None for v in lst):
                    continue                      # "[None]" = nothing known for the column
                verdict[G_USER] = f"statistics[{which!r}][{name!r}] has {len(lst)} entries for {len(decs)} row groups"
                break
            for gi, (v, dec) in enumerate(zip(lst, decs)):
                if v is None:
                    continue                      # None = unknown: always sound
                verdict["user_compared"] = verdict.get("user_compared", 0) + 1
                if which == "null_count":
                    if dec["null_count"] is None or int(v) != dec["null_count"]:
                        verdict[G_USER] = (f"statistics['null_count'][{name!r}][{gi}] = {v} but the footer says "
                                           f"{dec['null_count']}")
                elif dec["json"]:
                    continue
                elif dec[which] is None:
                    verdict[G_USER] = f"statistics[{which!r}][{name!r}][{gi}] = {v!r} but the footer carries no {which}"
                elif not same_stat(_canon_scalar(v), dec[which]):
                    verdict[G_USER] = (f"statistics[{which!r}][{name!r}][{gi}] = {v!r} but the footer bytes denote "
                                       f"{dec[which][1]!r} ({dec[which][0]})")
                if verdict[G_USER]:
                    break
            if verdict[G_USER]:
                break
    # -- exposed clause: a bound carried by every row group's chunk is shown, and a column whose STORED bounds
    #    increase strictly across row groups is listed with them
    for name, decs in rawdec.items():
        if verdict[G_EXPOSED] is not None:
            break
        if not decs or any(d["json"] for d in decs):
            continue
        carried = {}
        for which in ("min", "max"):
            carried[which] = all(d[which] is not None and d[which][0] != "undecodable" for d in decs)
            if not carried[which]:
                continue
            verdict["exposed"] += len(decs)
            lst = user.get(which, {}).get(name)
            if lst is None or len(lst) != len(decs) or any(v is None for v in lst):
                gi = next((i for i, v in enumerate(lst or []) if v is None), 0)
                verdict[G_EXPOSED] = (f"every row group's chunk of {name!r} carries a {which} (row group {gi}: "
                                      f"{decs[min(gi, len(decs) - 1)][which][1]!r}) but ParquetFile.statistics"
                                      f"[{which!r}][{name!r}] = {lst!r}")
                break
        if verdict[G_EXPOSED] is None and carried["min"] and carried["max"] and name in pf.columns:
            try:
                increasing = (all(d["min"][1] <= d["max"][1] for d in decs)
                              and all(a["max"][1] < b["min"][1] for a, b in zip(decs[:-1], decs[1:])))
            except TypeError:
                increasing = False
            if increasing:
                verdict["exposed"] += 1
                if name not in spc:
                    verdict[G_EXPOSED] = (f"the stored bounds of {name!r} increase strictly across row groups "
                                          f"(min {[d['min'][1] for d in decs][:4]!r}, max {[d['max'][1] for d in decs][:4]!r}) "
                                          f"but sorted_partitioned_columns lists only {sorted(spc)!r}")
                else:
                    for which in ("min", "max"):
                        got = [_canon_scalar(v) for v in spc[name][which]]
                        if len(got) != len(decs) or not all(same_stat(g, d[which]) for g, d in zip(got, decs)):
                            verdict[G_EXPOSED] = (f"{name!r}: listed {which} {spc[name][which]!r} differ from the "
                                                  f"stored {[d[which][1] for d in decs]!r}")
                            break
    # -- stable clause: queries on a handle do not change what it reports (own handles; `pf` is left alone)
    region = {}
    try:
        verdict[G_STABLE], verdict["stable"] = check_stable(fp, path, user, len(rgs), region)
    except Exception as e:
        verdict[G_STABLE] = f"repeated queries on one handle: {type(e).__name__}: {str(e)[:160]}"
    verdict["collapsed_stat_list"] = bool(region.get("collapsed"))
    # -- sorted clause
    verdict["listed"] = len(spc)
    for name, bounds in spc.items():
        exps = expected.get(name)
        if exps is None:
            verdict[G_SORTED] = f"sorted_partitioned_columns lists unknown column {name!r}"
            break
        if any(e["kind"] == "json" for e in exps):
            # JSON sorts by the bytes of its serialisation; the writer's separator style is not ours to fix:
            # fail only if the groups are unsorted under both the compact and the spaced style
            verdicts = []
            for sep in ((",", ":"), (", ", ": ")):
                ser = [[json.dumps(m, separators=sep, ensure_ascii=False).encode() for m in e.get("members", [])]
                       for e in exps]
                verdicts.append(all(a and b and max(a) < min(b) for a, b in zip(ser[:-1], ser[1:])))
            if not any(verdicts):
                verdict[G_SORTED] = f"{name!r} (JSON) is listed as sorted across row groups but its serialised values are not"
                break
            continue
        if any(e["min"] is None or e["max"] is None for e in exps):
            verdict[G_SORTED] = f"{name!r} is listed although a row group has no ordered non-null value"
            break
        for i in range(len(exps) - 1):
            if not exps[i]["max"][1] < exps[i + 1]["min"][1]:
                verdict[G_SORTED] = (f"{name!r} is listed as sorted across row groups but max of group {i} "
                                     f"({exps[i]['max'][1]!r}) >= min of group {i + 1} ({exps[i + 1]['min'][1]!r})")
                break
        if verdict[G_SORTED]:
            break
        for which in ("min", "max"):
            got = [_canon_scalar(v) for v in bounds[which]]
            if len(got) != len(exps) or not all(same_stat(g, e[which]) for g, e in zip(got, exps)):
                verdict[G_SORTED] = f"{name!r}: listed {which} {bounds[which]!r} differ from the data"
                break
    return verdict


def checked_write_factory(fp, verdict):
    def post(_):
        verdict["evaluations"] = verdict.get("evaluations", 0) + 1
        try:
            verdict.update(check_statistics(fp, _.path, _.df, _.options))
        except Exception as e:
            import traceback
            verdict[G_RAW] = f"statistics could not be obtained: {type(e).__name__}: {str(e)[:200]} " \
                             f"[{traceback.format_exc().splitlines()[-3].strip()[:120]}]"
        bad = [verdict.get(g) for g in GROUPS if verdict.get(g)]
        return True if not bad else "; ".join(bad)

    @deal.ensure(post)
    def checked_write(path, df, options):
        fp.write(path, df, **options)

    return checked_write


def run_case(fp, features, scratch):
    df = frame_from_features(features)
    kwargs, globs = D.bind_options(features, df)
    path = os.path.join(scratch, "t.parq")
    verdict = {}
    res = {"status": "ok", "what": ""}
    try:
        with warnings.catch_warnings():
            warnings.simplefilter("ignore")
            with D.writer_globals(fp, **globs):
                checked_write_factory(fp, verdict)(path, df, kwargs)
    except deal.PostContractError:
        res["status"] = "fail"
    except Exception as e:
        res.update(status="write_raised", what=f"{type(e).__name__}: {str(e)[:120]}")
    finally:
        if os.path.isdir(path):
            shutil.rmtree(path, ignore_errors=True)
        elif os.path.exists(path):
            os.remove(path)
    for g in GROUPS:
        res[g] = verdict.get(g)
    res["compared"], res["listed"] = verdict.get("compared", 0), verdict.get("listed", 0)
    res["exposed"] = verdict.get("exposed", 0)
    res["stable"] = verdict.get("stable", 0)
    res["collapsed_stat_list"] = verdict.get("collapsed_stat_list", False)
    res["user_compared"] = verdict.get("user_compared", 0)
    res["evaluations"] = verdict.get("evaluations", 0)
    res["cat_order"] = cat_order_feature(df, kwargs)
    res["empty_bound"] = empty_bound_feature(df, kwargs)
    return res


def empty_bound_feature(df, kwargs):
    """Input-side description of the text / bytes data columns that get statistics (stats=True or named):
       '-'    no row group of such a column holds an empty value ('' / b'')
       'min'  some row group's least value is empty while its greatest is not
       'all'  some row group's non-null values are all empty (min == max == empty)
       'min+all' both occur"""
    stats = kwargs.get("stats", "auto")
    sizes = [z for z in D.row_group_sizes(len(df), kwargs.get("row_group_offsets")) if z > 0]
    got = set()
    for c in df.columns:
        if not (stats is True or (isinstance(stats, (list, tuple)) and str(c) in stats)):
            continue
        s = df[c]
        if not (s.dtype == object or str(s.dtype) in ("str", "string")):
            continue
        start = 0
        for z in sizes:
            vals = [v for v in s.iloc[start:start + z] if isinstance(v, (str, bytes))]
            start += z
            if vals and any(len(v) == 0 for v in vals):
                got.add("all" if all(len(v) == 0 for v in vals) else "min")
    return "+".join(sorted(got, key=["min", "all"].index)) or "-"


def cat_order_feature(df, kwargs):
    """Input-side description of the categorical columns that get statistics (stats=True or named in the list):
       '-'               no such column
       'agrees'          in every row group the least/greatest VALUE present is the value with the
                         least/greatest category code
       'differs'         some row group where category order and value order disagree on the extremes
       'differs,listed'  additionally the by-category-code extremes are non-null in every row group and
                         strictly increasing across row groups, i.e. bounds taken by category code make the
                         column look sorted across row groups"""
    stats = kwargs.get("stats", "auto")
    cats = [c for c in df.columns if isinstance(df[c].dtype, pd.CategoricalDtype)
            and (stats is True or (isinstance(stats, (list, tuple)) and str(c) in stats))]
    if not cats:
        return "-"
    sizes = [z for z in D.row_group_sizes(len(df), kwargs.get("row_group_offsets")) if z > 0]
    key = _value_sort_key
    out = "agrees"
    for c in cats:
        start = 0
        differs, lo, hi = False, [], []
        for z in sizes:
            s = df[c].iloc[start:start + z]
            start += z
            codes = np.asarray(s.cat.codes)
            codes = codes[codes >= 0]
            if not len(codes):
                lo.append(None)
                hi.append(None)
                continue
            labels = list(s.cat.categories)
            present = [labels[k] for k in sorted(set(codes))]
            lo.append(key(labels[codes.min()]))
            hi.append(key(labels[codes.max()]))
            if lo[-1] != min(map(key, present)) or hi[-1] != max(map(key, present)):
                differs = True
        if differs:
            listed = (None not in lo and sorted(lo) == lo and sorted(hi) == hi
                      and all(a < b for a, b in zip(hi[:-1], lo[1:])))
            if listed:
                return "differs,listed"
            out = "differs"
    return out


# ---- enumeration -----------------------------------------------------------------------------------------
OPTION_AXES = {
    "rgo": ["none", "int", "list"],
    "stats": [True, "auto", "list"],
    "pages": [1, 2, 3],
    "page_version": [1, 2],
    "has_nulls": [True, False, "infer"],
    "times": ["int64", "int96"],
    "file_scheme": ["simple", "hive"],
    "codec": ["none", "SNAPPY"],
    "write_index": [None, True],
    "order": ORDERS,
}


def option_features(tier):
    arr = D.covering_array(OPTION_AXES, 3)      # 3-wise in both tiers (cases are cheap: only footers are read)
    base = {k: v for k, v in D.DEFAULT_OPTIONS.items()}
    out = []
    for r in arr:
        o = dict(base)
        o.update(r)
        out.append(o)
    first = dict(base, stats=True, order="ascending", rgo="list")
    if first not in out:
        out.insert(0, first)
    return out


def admissible(c):
    dt = c["dtype"]
    if c["times"] == "int96" and any(u in dt for u in ("[s", "[ms", "[us")) and dt.startswith("datetime64"):
        return False
    if c["times"] == "int96" and dt == "mixed_time":
        return False
    if dt.startswith("datetime64[s") and c["has_nulls"] in (False, "infer") and c["nulls"] != "none":
        return False
    if dt == "mixed_time" and c["has_nulls"] in (False, "infer") and c["nulls"] != "none":
        return False
    return True


def enumerate_cases(tier, seed=0):
    opts = option_features(tier)
    dtypes = [d for d in D.DTYPES if d not in EXCLUDED_DTYPES]
    rows = [1, 7, 9, 65] if tier == "quick" else [1, 7, 8, 9, 63, 64, 65]
    big = 8193
    cases = []
    for di, dt in enumerate(dtypes):
        shapes = [(n, p) for n in rows for p in D.null_patterns(dt, n)]
        if dt in D.BIG_DTYPES or tier == "thorough":
            shapes += [(big, p) for p in (["none", "some"] if D.allows_nulls(dt) else ["none"])]
        roomy = [s for s in shapes if s[0] >= 7]
        for k, o in enumerate(opts):                      # every option tuple meets every dtype
            n, p = roomy[(k * 5 + di) % len(roomy)]
            cases.append({"dtype": dt, "rows": n, "nulls": p, "index": "range", **o})
        reps = 2 if tier == "quick" else 6
        for k, (n, p) in enumerate(shapes):               # every shape is used
            for r in range(reps):
                cases.append({"dtype": dt, "rows": n, "nulls": p, "index": "range", **opts[(k * reps + r + 2 * di) % len(opts)]})
    # text / bytes columns with EMPTY values (falsy bounds): statistics switched on, every option tuple, every shape
    for di, dt in enumerate(EMPTY_BOUND_DTYPES):
        shapes = [(n, p) for n in rows for p in D.null_patterns(base_dtype(dt), n)]
        for k, o in enumerate(opts):
            for n, p in (shapes if tier == "thorough" else [shapes[(k * 5 + di) % len(shapes)],
                                                           shapes[(k * 7 + 3 * di + 1) % len(shapes)]]):
                cases.append({"dtype": dt, "rows": n, "nulls": p, "index": "range",
                              **dict(o, stats=True if o["stats"] == "auto" else o["stats"])})
    # text / bytes cells LONGER than 64 bytes sharing a 70-byte prefix: statistics switched on, every option tuple
    for di, dt in enumerate(LONG_VALUE_DTYPES):
        shapes = [(n, p) for n in rows for p in D.null_patterns(base_dtype(dt), n)]
        for k, o in enumerate(opts):
            for n, p in (shapes if tier == "thorough" else [shapes[(k * 5 + di) % len(shapes)],
                                                           shapes[(k * 7 + 3 * di + 1) % len(shapes)]]):
                cases.append({"dtype": dt, "rows": n, "nulls": p, "index": "range",
                              **dict(o, stats=True if o["stats"] == "auto" else o["stats"])})
    for name in ("mixed_all", "mixed_num", "mixed_obj", "mixed_time"):
        for n in ([9, 65] if tier == "quick" else [1, 9, 65, 8193]):
            for p in ("none", "some", "all"):
                for o in opts:
                    cases.append({"dtype": name, "rows": n, "nulls": p, "index": "range", **o})
    for kind in ("int", "named", "str", "datetime", "multi"):      # statistics of stored index columns
        for dt in ("int64", "str"):
            for o in opts[:6]:
                cases.append({"dtype": dt, "rows": 9, "nulls": "none", "index": kind, **o, "write_index": None})
    out, seen = [], set()
    for c in cases:
        if not admissible(c):
            continue
        c.update(D.derived_features(dict(c, dtype=base_dtype(c["dtype"]))))
        key = tuple(sorted((k, str(v)) for k, v in c.items()))
        if key not in seen:
            seen.add(key)
            out.append(c)
    return out


def make_snippet(features, clause):
    return f'''# C04 replay, clause {clause!r}: statistics are exact (run from /verif; the library under check is the plain
# `import fastparquet`, frame/oracle come from runtime.datasets / runtime.c04_stats)
import os, sys, shutil, tempfile, warnings
sys.path.insert(0, "/verif")
import fastparquet
from runtime import datasets as D, c04_stats as M
features = {features!r}
df = M.frame_from_features(features)
kwargs, globs = D.bind_options(features, df)
d = tempfile.mkdtemp(prefix="verif-replay-")
VIOLATED = False
try:
    warnings.simplefilter("ignore")
    path = os.path.join(d, "t.parq")
    with D.writer_globals(fastparquet, **globs):
        try:
            fastparquet.write(path, df, **kwargs)
            wrote = True
        except Exception as e:
            wrote = False
            print("write raised (nothing to check):", type(e).__name__, e)
    if wrote:
        try:
            verdict = M.check_statistics(fastparquet, path, df, kwargs)
        except Exception as e:
            verdict = {{M.G_RAW: "statistics could not be obtained: %s: %s" % (type(e).__name__, e)}}
        what = verdict.get({clause!r})
        VIOLATED = what is not None
        print("VIOLATED" if VIOLATED else "ok", what or "")
finally:
    shutil.rmtree(d, ignore_errors=True)
'''


# ---- pool ---------------------------------------------------------------------------------------------------
def _init_worker(root):
    import tempfile
    return {"fp": import_fastparquet(), "dir": tempfile.mkdtemp(prefix="w-", dir=root)}


def _work(state, features):
    return run_case(state["fp"], features, state["dir"])


def _cleanup(state):
    shutil.rmtree(state["dir"], ignore_errors=True)


_work.cleanup = _cleanup


def run_cases(cases, workers=None):
    import functools
    with tmpdir(prefix="verif-c04-") as root:        # removed even when a worker dies
        res = D.crashproof_map(_work, cases, init=functools.partial(_init_worker, root), workers=workers,
                               weight=lambda c: c["rows"])
    for c, (kind, r) in zip(cases, res):
        if kind == "ok":
            yield c, r
        elif kind == "crash":
            yield c, {"status": "fail", G_RAW: "interpreter crashed during write / statistics: " + r, G_USER: None,
                      G_SORTED: None, G_EXPOSED: None, G_STABLE: None, "exposed": 0, "stable": 0, "compared": 0, "listed": 0, "user_compared": 0, "evaluations": 1, "cat_order": "-"}
        else:
            yield c, {"status": "engine", "what": r}


RULE = ("single-column frames over the dtypes of C01's quantifier except {excl} ({n} dtypes: signed/unsigned ints, "
        "floats with NaN/inf/-0.0, unicode text, bytes, json, naive/tz-aware timestamps of 4 units, timedelta, "
        "categoricals with sorted/unsorted/unused/ordered/300 categories, nullable Int/UInt/boolean) x rows {rows} "
        "x null patterns x value order (scrambled/ascending/descending/constant), every dtype paired with every "
        "tuple of a 3-wise covering array ({k} tuples) over row_group_offsets none/int/list x stats True/auto/list x "
        "pages 1/2/3 x DATAPAGE_VERSION 1/2 x has_nulls True/False/infer x times x file_scheme x codec x write_index "
        "x value order; plus 4 mixed multi-column frames x all tuples and frames with stored int/str/datetime/multi "
        "indexes; plus text/bytes columns with EMPTY values ({ne} dtypes '<str|object_str|string|bytes>+empties': leading "
        "third of the rows '' / b'', so that chunks with min == max == '' and chunks with min == '' < max occur, with "
        "and without nulls) x every option tuple with stats forced on (True / list); plus text/bytes cells of 75..205 bytes "
        "sharing a 70-byte prefix ('<...>+long') likewise; clause stable: per case up to 3 filters built from the exposed "
        "bounds that select a strict subset of the row groups, 6 repeated queries on one handle each compared with a "
        "fresh handle. BOUND: rows <= 8193, <= 8 columns. "
        "Non-trivial when at least one min/max was compared (raw/user), at least one column was listed (sorted), at "
        "least one stored bound had to be exposed (exposed).")


def run_bounded(ctx):
    import_fastparquet()
    cases = enumerate_cases(ctx.tier, ctx.seed)
    opts = option_features(ctx.tier)
    rule = RULE.format(excl=EXCLUDED_DTYPES, n=len(D.DTYPES) - len(EXCLUDED_DTYPES),
                       rows=[1, 7, 9, 65, 8193] if ctx.tier == "quick" else [1, 7, 8, 9, 63, 64, 65, 8193],
                       k=len(opts), ne=len(EMPTY_BOUND_DTYPES))
    for g in GROUPS:
        ctx.bounded_group(g, rule=rule)
    t0 = time.time()
    n_eval = n_raised = n_compared = n_listed = 0
    for features, res in run_cases(cases):
        if res["status"] == "engine":
            ctx.engine_error(f"c04 worker failed on {features}: {res['what']}")
            continue
        if res["status"] == "write_raised":
            n_raised += 1
            with Case(ctx, G_RAW, features, snippet=make_snippet(features, G_RAW), nontrivial=False,
                      contract=CONTRACT[G_RAW]):
                pass
            continue
        n_eval += res["evaluations"]
        n_compared += res["compared"]
        n_listed += res["listed"]
        feats = dict(features)
        feats["cat_order"] = res["cat_order"]
        feats["empty_bound"] = res.get("empty_bound", "-")
        feats["collapsed_stat_list"] = bool(res.get("collapsed_stat_list", False))
        for g in GROUPS:
            nontrivial = {G_RAW: res["compared"], G_USER: res.get("user_compared", 0), G_SORTED: res["listed"],
                          G_EXPOSED: res.get("exposed", 0), G_STABLE: res.get("stable", 0)}[g] > 0
            with Case(ctx, g, feats, snippet=make_snippet(features, g), nontrivial=nontrivial, contract=CONTRACT[g]) as c:
                if res.get(g):
                    c.fail(res[g])
    ctx.note(f"c04.stats: {len(cases)} cases, {n_eval} post-condition evaluations, {n_compared} raw min/max values "
             f"compared with the oracle, {n_listed} sorted-partitioned listings checked, {n_raised} writes raised "
             f"(nothing to check), {time.time() - t0:.1f}s")
    if n_eval == 0 or n_compared == 0:
        ctx.engine_error("c04.stats: the contract was evaluated zero times / compared nothing")
