"""C10 (bounded part): metadata serialisation is lossless, IDL-conformant and safe for any size.

Values of the metadata structs are GENERATED FROM THE IDL shipped with the library
(/repo/fastparquet/parquet.thrift, parsed by spec.thrift_idl on every run) and pushed through the
real serialiser / parser of fastparquet (cencoding.ThriftObject.to_bytes / from_buffer):

  c10.api      built through the API the way writer.py does (`ThriftObject.from_fields(name,
               i32=..., i32list=[...], **fields)`, marker = exactly the IDL-32-bit fields present)
               -> to_bytes() -> must decode STRICTLY with the independent IDL codec to the same values
               (field ids + wire types of the IDL) and from_buffer(bytes, name) == original.
  c10.foreign  bytes produced by the independent encoder (another writer) -> from_buffer ->
               to_bytes() -> strict decode gives the same values (wire types preserved).
  c10.pickle   pickle.loads(pickle.dumps(obj)) == obj for objects of both origins.
  c10.oversize payloads around / above the fixed 500 000 byte serialisation buffer, ONLY in a
               subprocess (heap overflow): wrong output, crash or signal is the failed case.
  c10.update_kv the key-value UPDATE path (util.update_custom_metadata on a FileMetaData object / on a ParquetFile,
               writer.update_file_custom_metadata on a data file / on the _metadata file of a hive dataset) with
               values given as str or bytes - ASCII, 2-, 3-, 4-byte UTF-8 characters, mixed - of 0 .. 400 000
               characters (up to 1.2 MB encoded), adding a key or replacing one, ONLY in a subprocess: afterwards every
               KeyValue key / value of the metadata object is `bytes` (the form the serialiser sizes its buffer for),
               the footer decodes strictly with the independent IDL codec to the old entries + the new one, the file
               re-opens with the value intact and the data unchanged.  (The dataset is first WRITTEN with a small
               ASCII value only: large non-ASCII str values handed to write() are the known to_bytes findings.)

The oracle (spec.thrift_idl enc/dec, value generator, by-name comparison) shares no code and no
table with fastparquet: ids, wire types and requiredness come from the .thrift text.
"""
import concurrent.futures
import hashlib
import inspect
import json
import os
import pickle
import random
import subprocess
import sys
import textwrap

from runtime.harness import Case, import_fastparquet
from spec import thrift_idl as T

INPROC_LIMIT = 300_000          # never serialise more than this in-process (unguarded memcpy in to_bytes)
ROOTS = ["FileMetaData", "PageHeader"]
INT_BITS = {"i8": 8, "byte": 8, "i16": 16, "i32": 32, "i64": 64}
LIST_LENS = [0, 1, 14, 15, 16, 200]
STR_LENS = [0, 1, 127, 128, 16383, 16384, 100_000]
ALPHA = "abcXYZ019_-. /=\\éß中\U0001F600"


# ------------------------------------------------------------------------------------------------
# helpers shared verbatim with the replay snippets (their source text is pasted into the snippet)
# ------------------------------------------------------------------------------------------------
def norm(idl, sname, val):
    """Expected value in the shape spec.thrift_idl.dec returns: absent == None dropped, text as utf-8 bytes."""
    out = {}
    for f in idl.structs[sname]:
        v = val.get(f.name)
        if v is None:
            continue
        out[f.name] = norm_value(idl, f.type, v)
    return out


def norm_value(idl, t, v):
    k, x = idl.kind(t)
    if k == "struct":
        return norm(idl, x, v)
    if k == "list":
        return [norm_value(idl, x, e) for e in v]
    if k == "enum":
        return int(v)
    if x in ("string", "binary"):
        return v.encode("utf8") if isinstance(v, str) else bytes(v)
    if x == "bool":
        return bool(v)
    return v


def named(idl, sname, contents):
    """ThriftObject.contents (dict keyed by field id, plus the 'i32'/'i32list' markers) -> by-name
    dict in the shape of norm(); a key that is no IDL field id of the struct is an error."""
    byid = idl.fields_by_id(sname)
    out = {}
    for k, v in contents.items():
        if k in ("i32", "i32list"):
            continue
        if v is None:
            continue
        if k not in byid:
            raise AssertionError(f"{sname}: parsed key {k!r} is not a field id of the IDL")
        f = byid[k]
        out[f.name] = named_value(idl, f.type, v)
    return out


def named_value(idl, t, v):
    k, x = idl.kind(t)
    if hasattr(v, "contents"):
        v = v.contents
    if k == "struct":
        return named(idl, x, v)
    if k == "list":
        return [named_value(idl, x, e) for e in v]
    if k == "enum":
        return v
    if x in ("string", "binary"):
        return v.encode("utf8") if isinstance(v, str) else bytes(v)
    return v


def first_diff(a, b, path=""):
    if type(a) is not type(b) and not (isinstance(a, (int, bool)) and isinstance(b, (int, bool)) and a == b):
        return f"{path}: {type(a).__name__} {short(a)} != {type(b).__name__} {short(b)}"
    if isinstance(a, dict):
        for k in list(a) + [k for k in b if k not in a]:
            if k not in a:
                return f"{path}.{k}: missing in expected, got {short(b[k])}"
            if k not in b:
                return f"{path}.{k}: expected {short(a[k])}, field absent"
            d = first_diff(a[k], b[k], f"{path}.{k}")
            if d:
                return d
        return None
    if isinstance(a, list):
        if len(a) != len(b):
            return f"{path}: list length {len(a)} != {len(b)}"
        for i, (x, y) in enumerate(zip(a, b)):
            d = first_diff(x, y, f"{path}[{i}]")
            if d:
                return d
        return None
    return None if a == b else f"{path}: expected {short(a)}, got {short(b)}"


def short(v):
    r = repr(v)
    return r if len(r) < 60 else r[:40] + f"...<{len(r)} chars>"


def build(idl, TO, sname, val, text_as="str", absent_as="omitted"):
    """Build through the fastparquet API the way writer.py does: nested ThriftObjects, and the
    i32 / i32list marker naming exactly the IDL-32-bit integer fields that are present."""
    kw, ints32, ints_other = {}, [], []
    for f in idl.structs[sname]:
        v = val.get(f.name)
        if v is None:
            if absent_as == "None":
                kw[f.name] = None
            continue
        k, x = idl.kind(f.type)
        if k == "struct":
            v = build(idl, TO, x, v, text_as, absent_as)
        elif k == "list":
            ek, ex = idl.kind(x)
            if ek == "struct":
                v = [build(idl, TO, ex, e, text_as, absent_as) for e in v]
            elif ek == "prim" and ex == "string":
                v = [e if isinstance(e, str) else e.decode("utf8") for e in v]   # writer passes str lists
            else:
                v = list(v)
        elif k == "enum":
            ints32.append(f.id)
        elif x == "string":
            s = v if isinstance(v, str) else v.decode("utf8")
            v = s if text_as == "str" else s.encode("utf8")
        elif x in ("i32",):
            ints32.append(f.id)
        elif x in ("i64", "i16", "i8", "byte"):
            ints_other.append(f.id)          # no marker exists for narrow ints: they go with the 64-bit ones
        kw[f.name] = v
    if ints32 and not ints_other:
        return TO.from_fields(sname, i32=True, **kw)
    if ints32:
        return TO.from_fields(sname, i32list=ints32, **kw)
    return TO.from_fields(sname, **kw)


def strict_decode(T, idl, sname, data):
    got, pos = T.dec(idl, sname, data, 0, True)
    if pos != len(data):
        raise AssertionError(f"{len(data) - pos} trailing bytes after the struct's stop byte")
    return got


def well_formed(T, idl, sname, data):
    """Gate before fastparquet's (unguarded, native) reader sees bytes fastparquet produced: the independent
    decoder must be able to walk them as ONE compact-protocol struct (ids / wire types not judged here)."""
    try:
        _, pos = T.dec(idl, sname, data, 0, False)
    except (T.ThriftError, IndexError, ValueError, KeyError) as e:
        return f"serialised bytes are not a well-formed compact-protocol struct: {type(e).__name__}: {e}"
    if pos != len(data):
        return f"serialised bytes are not one well-formed struct: {len(data) - pos} bytes follow the stop byte"
    return None


def check_api(T, idl, TO, sname, val, text_as="str", absent_as="omitted"):
    want = norm(idl, sname, val)
    obj = build(idl, TO, sname, val, text_as, absent_as)
    data = bytes(obj.to_bytes())
    try:
        got = strict_decode(T, idl, sname, data)
    except (T.ThriftError, IndexError, AssertionError) as e:
        return f"to_bytes() output is not IDL-conformant: {type(e).__name__}: {e}"
    d = first_diff(want, got, sname)
    if d:
        return "to_bytes() output decodes (strictly, per IDL) to other values: " + d
    back = TO.from_buffer(data, sname)
    if not (obj == back):
        return "not (x == from_buffer(to_bytes(x)))"
    d = first_diff(want, named(idl, sname, back.contents), sname)
    if d:
        return "from_buffer(to_bytes(x)) differs from x: " + d
    return None


def check_foreign(T, idl, TO, sname, val):
    want = norm(idl, sname, val)
    src = T.enc(idl, sname, val)
    obj = TO.from_buffer(src, sname)
    d = first_diff(want, named(idl, sname, obj.contents), sname)
    if d:
        return "from_buffer(independently encoded bytes) parsed to other values: " + d
    data = bytes(obj.to_bytes())
    try:
        got = strict_decode(T, idl, sname, data)
    except (T.ThriftError, IndexError, AssertionError) as e:
        return f"re-serialised bytes are not IDL-conformant: {type(e).__name__}: {e}"
    d = first_diff(want, got, sname)
    if d:
        return "re-serialised bytes decode (strictly, per IDL) to other values: " + d
    return None


def check_pickle(T, idl, TO, sname, val, source="api"):
    import pickle
    want = norm(idl, sname, val)
    obj = build(idl, TO, sname, val) if source == "api" else TO.from_buffer(T.enc(idl, sname, val), sname)
    bad = well_formed(T, idl, sname, bytes(obj.to_bytes()))
    if bad:
        return bad
    back = pickle.loads(pickle.dumps(obj))
    if type(back) is not type(obj) or back.thrift_name != sname:
        return f"unpickled object is {type(back).__name__} {getattr(back, 'thrift_name', None)}"
    if not (obj == back):
        return "not (x == pickle.loads(pickle.dumps(x)))"
    d = first_diff(want, named(idl, sname, back.contents), sname)
    if d:
        return "pickle.loads(pickle.dumps(x)) differs from x: " + d
    return None


def check_eq(T, idl, TO, sname, val, source="api", text_as="str", via="to_bytes"):
    """The literal reading: the PARSED object on the left of `==` (ThriftObject.__eq__ / dict_eq)."""
    import pickle
    obj = build(idl, TO, sname, val, text_as) if source == "api" else TO.from_buffer(T.enc(idl, sname, val), sname)
    bad = well_formed(T, idl, sname, bytes(obj.to_bytes()))
    if bad:
        return bad
    back = TO.from_buffer(bytes(obj.to_bytes()), sname) if via == "to_bytes" else pickle.loads(pickle.dumps(obj))
    if not (back == obj):
        return ("from_buffer(to_bytes(x)) == x" if via == "to_bytes" else "pickle.loads(pickle.dumps(x)) == x") + \
               " is False" + (" although x == <parsed> is True" if obj == back else "")
    return None


SNIPPET_HELPERS = [well_formed, norm, norm_value, named, named_value, first_diff, short, build, strict_decode,
                   check_api, check_foreign, check_pickle, check_eq]


# ------------------------------------------------------------------------------------------------
# value generation from the IDL
# ------------------------------------------------------------------------------------------------
def stable_rng(*key):
    return random.Random(int(hashlib.sha256(repr(key).encode()).hexdigest()[:16], 16))


def crypto_structs(idl):
    return set(idl.reachable(["EncryptionAlgorithm", "ColumnCryptoMetaData"]))


def gen_text(rnd, n, kind):
    """Deterministic text of exactly n bytes (utf-8) / n bytes (binary); long ones are periodic so
    that the replay snippet can spell them as an expression."""
    if kind == "binary":
        if n <= 64:
            return bytes(rnd.randrange(256) for _ in range(n))
        pat = bytes([0, 255, 128, 127, 10, 13]) + bytes(rnd.randrange(256) for _ in range(31))
        return (pat * (n // len(pat) + 1))[:n]
    if n <= 64:
        s = ""
        while len(s.encode("utf8")) < n:
            c = rnd.choice(ALPHA)
            if len((s + c).encode("utf8")) <= n:
                s += c
            else:
                s += "a"
        return s
    pat = "".join(rnd.choice(ALPHA) for _ in range(17)) + "é"
    plen = len(pat.encode("utf8"))
    s = pat * (n // plen)
    return s + "z" * (n - len(s.encode("utf8")))


def gen_int(bits, mode, rnd):
    lo, hi = -(1 << (bits - 1)), (1 << (bits - 1)) - 1
    if mode == "min":
        return lo
    if mode == "max":
        return hi
    if mode == "zero":
        return 0
    c = rnd.randrange(6)
    if c == 0:
        return rnd.randint(lo, hi)
    if c == 1:
        return rnd.randint(-70, 70)
    if c == 2:
        k = rnd.randrange(bits - 1)
        return max(lo, min(hi, rnd.choice([1, -1]) * (1 << k) + rnd.choice([-1, 0, 1])))
    if c == 3:
        return rnd.choice([lo, hi, lo + 1, hi - 1, -1, 1])
    return rnd.randint(0, min(hi, 10 ** 6))


class Gen:
    """One generated value: structure decisions come from `srnd` (seeded by the case's features only,
    so the enumeration and the has_field14 / narrow features never depend on the seed), scalar
    contents from `vrnd` (seeded by features + ctx.seed)."""

    def __init__(self, idl, key, seed, include_crypto):
        self.idl = idl
        self.srnd = stable_rng("structure", key)
        self.vrnd = stable_rng("values", key, seed)
        self.excluded = set() if include_crypto else crypto_structs(idl)
        self.union_rot = 0

    def plain_field(self, f):
        """False for the two shapes with pinned known defects (field id 14, narrow integers)."""
        if f.id >= 14:
            return False
        k, x = self.idl.kind(f.type)
        if k == "prim" and x in ("i8", "byte", "i16"):
            return False
        if k == "struct" and any(not self.plain_field(g) for g in self.idl.structs[x] if g.req == "required"):
            return False
        return True

    def struct(self, sname, opt, ints, depth=0, top=None):
        idl = self.idl
        fields = [f for f in idl.structs[sname] if self._target(f) not in self.excluded]
        out = {}
        if sname in idl.unions:
            cands = fields
            if opt == "all_plain":
                cands = [f for f in fields if self.plain_field(f)]
            if opt.startswith("member:"):
                cands = [f for f in fields if f.name == opt[7:]]
                opt = "all"
            if not cands:
                return out
            f = cands[self.srnd.randrange(len(cands))] if len(cands) > 1 else cands[0]
            out[f.name] = self.value(f.type, opt, ints, depth)
            return out
        each = opt[5:] if opt.startswith("each:") else None
        for f in fields:
            if f.req != "required":
                if opt == "req":
                    continue
                if each is not None and f.name != each:
                    continue
                if opt == "all_plain" and not self.plain_field(f):
                    continue
            ov = None
            if top and top.get("field") == f.name:
                ov = top
            sub = opt if each is None else ("all_plain" if f.name == each else "req")
            out[f.name] = self.value(f.type, sub, ints, depth, ov)
        return out

    def _target(self, f):
        k, x = self.idl.kind(f.type)
        if k == "list":
            k, x = self.idl.kind(x)
        return x if k == "struct" else None

    def value(self, t, opt, ints, depth, ov=None):
        idl, vr = self.idl, self.vrnd
        k, x = idl.kind(t)
        if k == "struct":
            return self.struct(x, opt, ints, depth + 1)
        if k == "enum":
            vals = sorted(idl.enums[x].values())
            if ints == "min":
                return vals[0]
            if ints == "max":
                return vals[-1]
            if ints == "zero":
                return 0 if 0 in vals else vals[0]
            return vr.choice(vals)
        if k == "list":
            n = ov["n"] if ov and "n" in ov else (2 if depth < 2 else 1)
            ek, ex = idl.kind(x)
            if ek == "struct":
                # alternate rich / minimal elements so that both shapes sit inside one list
                inner = [opt if (i % 2 == 0 or opt == "req") else "req" for i in range(n)]
                if n > 16:
                    inner = [o if i < 4 else "req" for i, o in enumerate(inner)]
                return [self.struct(ex, o, ints if i % 3 else "rand", depth + 1) for i, o in enumerate(inner)]
            return [self.value(x, opt, ints if i % 2 == 0 else "rand", depth + 1) for i in range(n)]
        if x == "bool":
            return {"min": False, "max": True, "zero": False}.get(ints, vr.random() < 0.5)
        if x in ("i8", "byte", "i16"):
            # seed-independent: the sign of an i8 is a feature (known finding: negative i8 parsed unsigned)
            return gen_int(INT_BITS[x], ints, self.srnd)
        if x in INT_BITS:
            return gen_int(INT_BITS[x], ints, vr)
        if x == "double":
            return vr.choice([0.0, -0.0, 1.5, -2.25e300, 5e-324, float("inf")])
        if x in ("string", "binary"):
            n = ov["strlen"] if ov and "strlen" in ov else vr.choice([0, 1, 3, 7, 20])
            return gen_text(vr, n, x)
        raise KeyError(t)


def flags(idl, sname, val):
    """(has_field14, narrow, i8_negative, has_string_scalar) of a generated value: is any field with id >= 14 /
    of type i8 / i16 / a negative i8 / a string-typed scalar field present."""
    f14, nar, neg, strs = False, set(), False, False

    def walk(s, v):
        nonlocal f14, neg, strs
        for f in idl.structs[s]:
            x = v.get(f.name)
            if x is None:
                continue
            if f.id >= 14:
                f14 = True
            k, t = idl.kind(f.type)
            if k == "prim" and t in ("i8", "byte", "i16"):
                nar.add("i8" if t != "i16" else "i16")
                if t != "i16" and x < 0:
                    neg = True
            if k == "prim" and t == "string":
                strs = True
            if k == "struct":
                walk(t, x)
            elif k == "list":
                ek, et = idl.kind(t)
                if ek == "struct":
                    for e in x:
                        walk(et, e)
    walk(sname, val)
    return f14, "+".join(sorted(nar)) or "none", neg, strs


def enumerate_specs(idl, tier):
    """Yield (struct, opt, ints, top-override, label features).  Seed-independent."""
    cx = crypto_structs(idl)
    structs = [s for s in idl.reachable(ROOTS) if s not in cx]
    int_modes = ["min", "max", "zero", "rand"]
    for s in sorted(structs):
        fields = idl.structs[s]
        if not fields:
            yield s, "req", "rand", None, {}
            continue
        if s in idl.unions:
            for f in fields:
                for im in ["min", "max", "rand"]:
                    yield s, "member:" + f.name, im, None, {}
            continue
        opts = ["req", "all", "all_plain"] + ["each:" + f.name for f in fields if f.req != "required"]
        for o in opts:
            for im in int_modes:
                yield s, o, im, None, {}
        for f in fields:
            k, x = idl.kind(f.type)
            if k == "list":
                for n in LIST_LENS:
                    for o in ("all_plain", "all"):
                        yield s, o, "rand", {"field": f.name, "n": n}, {"list_field": f.name, "listlen": n}
            elif k == "prim" and x in ("string", "binary"):
                for n in STR_LENS:
                    yield s, "all_plain", "rand", {"field": f.name, "strlen": n}, {"str_field": f.name, "strlen": n}
        if tier == "thorough":
            for v in range(40):
                yield s, "all" if v % 2 else "all_plain", "rand", None, {"variant": v}


def make_value(idl, s, opt, ints, top, extra, seed, include_crypto):
    key = (s, opt, ints, json.dumps(top, sort_keys=True), json.dumps(extra, sort_keys=True), include_crypto)
    g = Gen(idl, key, seed, include_crypto)
    if top and top.get("field") and opt.startswith(("all", "req")):
        # the overridden field must be present whatever `opt` says
        val = g.struct(s, opt, ints, 0, top)
        if top["field"] not in val:
            f = idl.fields_by_name(s)[top["field"]]
            val[f.name] = g.value(f.type, opt, ints, 0, top)
        return val
    return g.struct(s, opt, ints, 0, top)


# ------------------------------------------------------------------------------------------------
# replay snippets
# ------------------------------------------------------------------------------------------------
def lit(v, ind=0):
    """Python literal/expression for a generated value; long periodic texts as (pattern*k)[:n]."""
    if isinstance(v, dict):
        return "{" + ", ".join(f"{k!r}: {lit(x)}" for k, x in v.items()) + "}"
    if isinstance(v, list):
        if len(v) > 20 and all(x == v[0] for x in v):
            return f"[{lit(v[0])}] * {len(v)}"
        return "[" + ", ".join(lit(x) for x in v) + "]"
    if isinstance(v, (str, bytes)) and len(v) > 200:
        n = len(v)
        for p in range(1, 80):
            if (v[:p] * (n // p + 1))[:n] == v:
                return f"({v[:p]!r} * {n // p + 1})[:{n}]"
        for p in range(1, 80):      # periodic body + filler tail
            body = v.rstrip("z") if isinstance(v, str) else v
            if body and (body[:p] * (len(body) // p + 1))[:len(body)] == body:
                return f"({body[:p]!r} * {len(body) // p + 1})[:{len(body)}] + {v[len(body):][:1]!r} * {n - len(body)}"
    if isinstance(v, float):
        return f"float({str(v)!r})"
    return repr(v)


class LazySnippet:
    """Rendered only when a replay file is written (json default=str) — values can be large."""

    def __init__(self, call, sname, val):
        self.call, self.sname, self.val = call, sname, val

    def __str__(self):
        src = "\n\n".join(textwrap.dedent(inspect.getsource(f)) for f in SNIPPET_HELPERS)
        return (
            "import os, sys\n"
            "sys.path.insert(0, os.environ.get('VERIF_REPO', '/repo')); sys.path.insert(0, '/verif')\n"
            "import fastparquet\n"
            "from fastparquet.cencoding import ThriftObject as TO\n"
            "from spec import thrift_idl as T      # independent IDL-driven compact-protocol codec\n"
            "idl = T.load()\n\n" + src + "\n\n"
            f"SNAME = {self.sname!r}\nVAL = {lit(self.val)}\n"
            f"try:\n    WHAT = {self.call}\n"
            "except Exception as e:      # an escaping exception is a failed contract\n"
            "    WHAT = f'{type(e).__name__}: {e}'\nprint(WHAT)\nVIOLATED = WHAT is not None\n")


OVERSIZE_PROG = r'''
import os, sys, json, resource
resource.setrlimit(resource.RLIMIT_CORE, (0, 0))        # this process may abort: leave no core file
sys.path.insert(0, os.environ.get('VERIF_REPO', '/repo')); sys.path.insert(0, '/verif')
import fastparquet
from fastparquet.cencoding import ThriftObject as TO
from spec import thrift_idl as T
idl = T.load()
{helpers}

def payload(n, kind):
    if kind == "binary":
        return (bytes(range(256)) * (n // 256 + 1))[:n]
    if kind == "nonascii":                       # n BYTES of utf-8 made of 2-byte characters
        return "é" * (n // 2)
    return ("abcdefghij" * (n // 10 + 1))[:n]

def make(site, n):
    st = lambda: {{"max_value": payload(n, "binary"), "null_count": 0}}
    cmd = lambda: {{"type": 1, "encodings": [0], "path_in_schema": ["a"], "codec": 0, "num_values": 1,
                   "total_uncompressed_size": 10, "total_compressed_size": 10, "data_page_offset": 4,
                   "statistics": st()}}
    rg = lambda: {{"columns": [{{"file_offset": 4, "meta_data": cmd()}}], "total_byte_size": 10, "num_rows": 1}}
    fmd = lambda **k: dict({{"version": 1, "schema": [{{"name": "schema", "num_children": 1}},
                                                      {{"name": "a", "type": 1}}],
                            "num_rows": 1, "row_groups": []}}, **k)
    if site == "Statistics.max_value":
        return "Statistics", st()
    if site == "KeyValue.value":
        return "KeyValue", {{"key": "k", "value": payload(n, "ascii")}}
    if site == "SchemaElement.name":
        return "SchemaElement", {{"name": payload(n, "ascii")}}
    if site == "PageHeader.data_page_header.statistics":
        return "PageHeader", {{"type": 0, "uncompressed_page_size": 1, "compressed_page_size": 1,
                              "data_page_header": {{"num_values": 1, "encoding": 0, "definition_level_encoding": 3,
                                                   "repetition_level_encoding": 4, "statistics": st()}}}}
    if site == "ColumnMetaData.statistics":
        return "ColumnMetaData", cmd()
    if site == "RowGroup.columns.statistics":
        return "RowGroup", rg()
    if site == "FileMetaData.row_groups.statistics":
        return "FileMetaData", fmd(row_groups=[rg()])
    small_rg = {{"columns": [{{"file_offset": 4}}], "total_byte_size": 10, "num_rows": 1}}
    if site == "FileMetaData.key_value_metadata.ascii":
        return "FileMetaData", fmd(row_groups=[small_rg],
                                   key_value_metadata=[{{"key": "pandas", "value": payload(n, "ascii")}}])
    if site == "FileMetaData.key_value_metadata.ascii.no_row_groups":
        return "FileMetaData", fmd(key_value_metadata=[{{"key": "pandas", "value": payload(n, "ascii")}}])
    if site == "FileMetaData.key_value_metadata.nonascii":
        return "FileMetaData", fmd(row_groups=[small_rg],
                                   key_value_metadata=[{{"key": "pandas", "value": payload(n, "nonascii")}}])
    if site == "FileMetaData.created_by":
        return "FileMetaData", fmd(created_by=payload(n, "ascii"))
    raise KeyError(site)

SITE, N, PATH = {site!r}, {n!r}, {path!r}
SNAME, VAL = make(SITE, N)
print("SIZE", len(T.enc(idl, SNAME, VAL)), flush=True)      # size by the independent encoder, before the risky call
WHAT = check_api(T, idl, TO, SNAME, VAL) if PATH == "api" else check_foreign(T, idl, TO, SNAME, VAL)
print("RESULT " + json.dumps(WHAT))
VIOLATED = WHAT is not None
'''


UPDATE_PROG = r'''
import os, sys, json, resource, struct, tempfile, shutil
resource.setrlimit(resource.RLIMIT_CORE, (0, 0))        # this process may abort: leave no core file
sys.path.insert(0, os.environ.get('VERIF_REPO', '/repo')); sys.path.insert(0, '/verif')
import pandas as pd
import fastparquet
from fastparquet import util, writer
from fastparquet.cencoding import ThriftObject as TO, from_buffer
from spec import thrift_idl as T
idl = T.load()
TARGET, OP, VTYPE, ALPHA, CHARS = {target!r}, {op!r}, {vtype!r}, {alpha!r}, {chars!r}
UNIT = {{"ascii": "abcdefghij", "latin2": "éßøñ", "cjk3": "漢字テスト", "emoji4": "\U0001F600\U0001d11e", "mixed": "aé中\U0001F600 z"}}[ALPHA]
TEXT = (UNIT * (CHARS // len(UNIT) + 1))[:CHARS]
VALUE = TEXT if VTYPE == "str" else TEXT.encode("utf8")
KEY = "owner" if OP == "replace" else "note"
print("SIZE", len(TEXT.encode("utf8")), flush=True)

def footer_kv(path, metadata_file):
    with open(path, "rb") as f:
        b = f.read()
    if b[:4] != b"PAR1" or b[-4:] != b"PAR1":
        return None, "file does not start / end with PAR1"
    n = struct.unpack("<I", b[-8:-4])[0]
    if metadata_file and n != len(b) - 12:
        return None, "footer length field %d, the _metadata file holds %d footer bytes" % (n, len(b) - 12)
    try:
        fmd, used = T.dec(idl, "FileMetaData", bytes(b[len(b) - 8 - n:len(b) - 8]), 0, strict=False)
    except Exception as e:
        return None, "footer does not decode: %s: %s" % (type(e).__name__, str(e)[:100])
    if used != n:
        return None, "footer decodes using %d of %d bytes" % (used, n)
    return [(kv.get("key"), kv.get("value")) for kv in fmd.get("key_value_metadata") or []], None

def types_ok(kvm):
    for kv in kvm or []:
        if type(kv.key) is not bytes or not (kv.value is None or type(kv.value) is bytes):
            return "after update_custom_metadata the KeyValue %r holds key %s / value %s (texts must be stored as bytes)" % (
                kv.key if len(str(kv.key)) < 30 else "...", type(kv.key).__name__, type(kv.value).__name__)
    return None

def run():
    d = tempfile.mkdtemp(prefix="verif-c10u-")
    try:
        df = pd.DataFrame({{"a": [1, 2, 3], "b": ["x", "y", "z"]}})
        hive = TARGET == "metadata-file"
        path = os.path.join(d, "ds" if hive else "data.parquet")
        fastparquet.write(path, df, custom_metadata={{"owner": "me", "other": "kept"}}, file_scheme="hive" if hive else "simple")
        target = os.path.join(path, "_metadata") if hive else path
        before, err = footer_kv(target, hive)
        if err:
            return "before the update: " + err
        want = [kv for kv in before if kv[0] != KEY.encode()]
        new = (KEY.encode(), TEXT.encode("utf8"))
        if OP == "replace":
            want = [new if kv[0] == KEY.encode() else kv for kv in before]
        else:
            want = before + [new]
        if TARGET in ("thrift-object", "parquetfile-object"):
            pf = fastparquet.ParquetFile(path)
            obj = pf.fmd if TARGET == "thrift-object" else pf
            util.update_custom_metadata(obj, {{KEY: VALUE}})
            msg = types_ok(pf.fmd.key_value_metadata)
            if msg:
                return msg
            got = [(kv.key, kv.value) for kv in pf.fmd.key_value_metadata]
            if got != want:
                return "key-value list after the update differs: %d entries, expected %d; entry of %r: %s" % (
                    len(got), len(want), KEY, [type(v).__name__ + ":" + str(len(v)) for k, v in got if k in (KEY, KEY.encode())])
            data = pf.fmd.to_bytes()
            back = from_buffer(data, "FileMetaData")
            got = [(kv.key, kv.value) for kv in back.key_value_metadata]
            if got != want:
                return "from_buffer(to_bytes(updated FileMetaData)) carries other key-values (%d entries, expected %d)" % (len(got), len(want))
            fmd2, used = T.dec(idl, "FileMetaData", bytes(data), 0, strict=False)
            if used != len(data) or [(kv.get("key"), kv.get("value")) for kv in fmd2.get("key_value_metadata") or []] != want:
                return "to_bytes(updated FileMetaData) does not decode (independent codec) to the updated key-values"
            return None
        writer.update_file_custom_metadata(target, {{KEY: VALUE}})
        after, err = footer_kv(target, hive)
        if err:
            return "after the update: " + err
        if after != want:
            return "footer key-values after the update: %d entries %s, expected %d; value of %r has %s bytes, expected %d" % (
                len(after), [k for k, _ in after][:6], len(want), KEY, [len(v) for k, v in after if k == KEY.encode()], len(new[1]))
        pf = fastparquet.ParquetFile(path)
        kv = pf.key_value_metadata
        if kv.get(KEY) != TEXT or kv.get("other") != "kept" or (OP != "replace" and kv.get("owner") != "me"):
            return "re-opened dataset: key_value_metadata[%r] has %s characters (expected %d), other=%r owner=%r" % (
                KEY, None if kv.get(KEY) is None else len(kv.get(KEY)), len(TEXT), kv.get("other"), kv.get("owner") if len(str(kv.get("owner"))) < 20 else "...")
        out = pf.to_pandas()
        if out["a"].tolist() != [1, 2, 3] or out["b"].tolist() != ["x", "y", "z"]:
            return "data changed / unreadable after the metadata update"
        return None
    finally:
        shutil.rmtree(d, ignore_errors=True)

try:
    WHAT = run()
except Exception as e:
    import traceback
    WHAT = "%s: %s @ %s" % (type(e).__name__, str(e)[:160], traceback.extract_tb(e.__traceback__)[-1].name)
print("RESULT " + json.dumps(WHAT))
VIOLATED = WHAT is not None
'''


def update_prog(case):
    return UPDATE_PROG.format(**case)


def update_snippet(case):
    return ("import subprocess, sys, os\n"
            f"PROG = {update_prog(case)!r}\n"
            "r = subprocess.run([sys.executable, '-c', PROG], capture_output=True, text=True, timeout=300)\n"
            "print(r.returncode, r.stdout[-400:], r.stderr[-400:])\n"
            "VIOLATED = not (r.returncode == 0 and 'RESULT null' in r.stdout)\n")


def run_update(case):
    try:
        r = subprocess.run([sys.executable, "-c", update_prog(case)], capture_output=True, text=True,
                           timeout=300, cwd="/verif", env=dict(os.environ))
    except subprocess.TimeoutExpired:
        return case, "child timed out", None
    size = [int(l.split()[1]) for l in r.stdout.splitlines() if l.startswith("SIZE ")]
    size = size[0] if size else None
    if r.returncode < 0:
        return case, f"child killed by signal {-r.returncode} during the key-value update / re-serialisation", size
    line = [l for l in r.stdout.splitlines() if l.startswith("RESULT ")]
    if r.returncode != 0 or not line:
        return case, f"child exit {r.returncode}: {r.stderr.strip().splitlines()[-1:] or r.stdout[-200:]}", size
    return case, json.loads(line[-1][7:]), size


UPDATE_TARGETS = ["data-file", "metadata-file", "thrift-object", "parquetfile-object"]


def enumerate_updates(tier):
    small = [("str", "mixed", 1000), ("str", "ascii", 0), ("str", "cjk3", 1), ("bytes", "mixed", 1000), ("str", "latin2", 40_000)]
    large = [("str", "cjk3", 170_000), ("str", "cjk3", 400_000), ("str", "emoji4", 130_000), ("str", "latin2", 300_000),
             ("str", "ascii", 600_000), ("bytes", "cjk3", 400_000)]
    if tier != "quick":
        small += [(t, a, n) for t in ("str", "bytes") for a in ("ascii", "latin2", "cjk3", "emoji4", "mixed") for n in (0, 1, 127, 128, 16_384)]
        large += [(t, a, n) for t in ("str", "bytes") for a in ("latin2", "cjk3", "emoji4", "mixed") for n in (125_000, 166_700, 250_000, 500_001)]
    out, seen = [], set()
    for ti, target in enumerate(UPDATE_TARGETS):
        for oi, op in enumerate(("add", "replace")):
            for k, (vtype, alpha, chars) in enumerate(small + large):
                if tier == "quick" and (vtype, alpha, chars) in small[1:] and (ti + oi + k) % 2:
                    continue
                key = (target, op, vtype, alpha, chars)
                if key not in seen:
                    seen.add(key)
                    out.append({"target": target, "op": op, "vtype": vtype, "alpha": alpha, "chars": chars})
    return out


def oversize_prog(site, n, path):
    helpers = "\n\n".join(textwrap.dedent(inspect.getsource(f)) for f in SNIPPET_HELPERS)
    return OVERSIZE_PROG.format(helpers=helpers, site=site, n=n, path=path)


def oversize_snippet(site, n, path):
    """Replay = run the same program in a child process (it may corrupt the heap of its process)."""
    return ("import subprocess, sys, os\n"
            f"PROG = {oversize_prog(site, n, path)!r}\n"
            "r = subprocess.run([sys.executable, '-c', PROG], capture_output=True, text=True, timeout=300)\n"
            "print(r.returncode, r.stdout[-400:], r.stderr[-400:])\n"
            "VIOLATED = not (r.returncode == 0 and 'RESULT null' in r.stdout)\n")


def run_oversize(args):
    site, n, path = args
    try:
        r = subprocess.run([sys.executable, "-c", oversize_prog(site, n, path)], capture_output=True, text=True,
                           timeout=300, cwd="/verif", env=dict(os.environ))
    except subprocess.TimeoutExpired:
        return site, n, path, "child timed out", None
    size = [int(l.split()[1]) for l in r.stdout.splitlines() if l.startswith("SIZE ")]
    size = size[0] if size else None
    if r.returncode < 0:
        return site, n, path, f"child killed by signal {-r.returncode}", size
    line = [l for l in r.stdout.splitlines() if l.startswith("RESULT ")]
    if r.returncode != 0 or not line:
        return site, n, path, f"child exit {r.returncode}: {r.stderr.strip().splitlines()[-1:] or r.stdout[-200:]}", size
    what = json.loads(line[-1][7:])
    return site, n, path, what, size


OVERSIZE_SITES = ["Statistics.max_value", "KeyValue.value", "SchemaElement.name",
                  "PageHeader.data_page_header.statistics", "ColumnMetaData.statistics",
                  "RowGroup.columns.statistics", "FileMetaData.row_groups.statistics",
                  "FileMetaData.key_value_metadata.ascii", "FileMetaData.key_value_metadata.ascii.no_row_groups",
                  "FileMetaData.key_value_metadata.nonascii",
                  "FileMetaData.created_by"]


# ------------------------------------------------------------------------------------------------
NOT_EVALUATED = "\x00not-evaluated"
MAX_RESTARTS = 6


def _worker_main():
    """child: jobs (JSON list) on stdin; per job a line `B <i>` before and `E <i> <json what>` after the check, so
    that the parent knows which case was running if this process dies (native reader/writer under test)."""
    import_fastparquet()
    from fastparquet.cencoding import ThriftObject as TO
    idl = T.load()
    fns = {"check_api": check_api, "check_foreign": check_foreign, "check_pickle": check_pickle, "check_eq": check_eq}
    jobs = json.load(sys.stdin)
    out = sys.stdout
    for i, job in jobs:
        out.write(f"B {i}\n")
        out.flush()
        s, opt, ints, top, extra = job["spec"]
        try:
            val = make_value(idl, s, opt, ints, top, extra, job["seed"], include_crypto=job["crypto"])
            what = fns[job["fn"]](T, idl, TO, s, val, *job["args"])
        except BaseException as e:      # noqa: an escaping exception is a failed contract
            what = f"{type(e).__name__}: {str(e)[:300]}"
        out.write(f"E {i} {json.dumps(what)}\n")
        out.flush()


def _run_worker_chunk(indexed):
    """-> {index: what}; a job during which the child died gets `child died ...`; after MAX_RESTARTS deaths the
    rest of the chunk is left unevaluated."""
    res, todo, deaths = {}, list(indexed), 0
    while todo:
        r = subprocess.run([sys.executable, "-m", "runtime.c10_idl_roundtrip"], input=json.dumps(todo),
                           capture_output=True, text=True, env=dict(os.environ),
                           cwd=os.path.dirname(os.path.dirname(os.path.abspath(__file__))))
        began = None
        for line in r.stdout.splitlines():
            if line.startswith("B "):
                began = int(line[2:])
            elif line.startswith("E "):
                _, i, payload = line.split(" ", 2)
                res[int(i)] = json.loads(payload)
                began = None
        if r.returncode == 0 and began is None and all(i in res for i, _ in todo):
            break
        if began is None:       # died outside a case (import, generation): engine problem, not a case result
            raise RuntimeError(f"c10 worker failed rc={r.returncode}: {r.stderr[-400:]}")
        sig = f"signal {-r.returncode}" if r.returncode < 0 else f"exit code {r.returncode}"
        res[began] = f"child process died ({sig}) while this case was running: {r.stderr.strip()[-160:]}"
        deaths += 1
        todo = [(i, j) for i, j in todo if i not in res]
        if deaths >= MAX_RESTARTS:
            for i, _ in todo:
                res[i] = NOT_EVALUATED
            break
    return res


def run_worker_jobs(wire, nproc):
    indexed = list(enumerate(wire))
    chunks = [indexed[k::nproc] for k in range(nproc)]
    with concurrent.futures.ThreadPoolExecutor(max_workers=nproc) as tex:
        parts = list(tex.map(_run_worker_chunk, chunks))
    merged = {}
    for part in parts:
        merged.update(part)
    results = [merged[i] for i in range(len(wire))]
    return results, sum(1 for r in results if r == NOT_EVALUATED)


def run_bounded(ctx):
    import_fastparquet()
    from fastparquet.cencoding import ThriftObject as TO
    idl = T.load()
    seed = ctx.seed
    rule_common = (
        "values generated from the IDL for every struct reachable from FileMetaData/PageHeader "
        "(encryption family: foreign path only — fastparquet has no table entry for it, the API refuses by KeyError); "
        "per struct: optional fields {none, all, all without the id-14/i8/i16 fields, each one alone} x integers "
        "{min, max, 0, random} of the declared width (enums: declared values); each union member alone; "
        f"each list field at lengths {LIST_LENS}; each string/binary field at {STR_LENS} bytes (utf-8 with "
        "non-ASCII / arbitrary bytes); nested lists 2,2,1 deep; strict decode = every field id and wire "
        f"type must be the IDL's, no trailing bytes.  In-process size cap {INPROC_LIMIT} bytes.")
    GA, GF, GP, GO, GE = "c10.api", "c10.foreign", "c10.pickle", "c10.oversize", "c10.eq"
    GU = "c10.update_kv"
    ctx.bounded_group(GU, rule="key-value update path: targets {update_file_custom_metadata on a data file, on the _metadata file of "
                      "a hive dataset; util.update_custom_metadata on the FileMetaData object, on the ParquetFile} x {add a key, "
                      "replace a key} x value given as str | bytes x alphabets {ASCII, 2-byte, 3-byte, 4-byte UTF-8 characters, mixed} "
                      "x lengths: small {0, 1, 1000, 40 000 characters} and large {170 000 / 400 000 CJK (510 kB / 1.2 MB encoded), "
                      "130 000 4-byte, 300 000 2-byte, 600 000 ASCII characters as str; 1.2 MB as bytes} (thorough: + 5 small and 4 "
                      "large lengths x both types x every alphabet); dataset written before with small ASCII values; each case in "
                      "its own child process; KeyValue texts stored as bytes, strict independent decode of the new footer == old "
                      "entries + new one, re-open gives the value and the data back; crash / signal = failed")
    ctx.bounded_group(GA, rule=rule_common + "  API path additionally x text passed as {str, bytes} x absent "
                      "fields {omitted, None}.")
    ctx.bounded_group(GF, rule=rule_common + "  Bytes come from the independent encoder (another writer).")
    ctx.bounded_group(GP, rule=rule_common + "  Objects of both origins {api, foreign} through pickle.")
    ctx.bounded_group(GE, rule=rule_common + "  The library's own `==` with the PARSED object on the left "
                      "(ThriftObject.__eq__ -> dict_eq), objects of both origins, text given as {str, bytes}, "
                      "via {to_bytes/from_buffer, pickle}.")
    ctx.bounded_group(GO, rule="one large payload at each of the places a name / statistics value / key-value "
                      "payload can sit, payload {499 000, 600 000, some 2 000 000} bytes (thorough: 9 sizes 400 000 .. "
                      "2 000 000 incl. 499 900 / 499 990 / 500 000 / 500 100), api and foreign origin; executed in a child process only; wrong or truncated output, "
                      "exception, crash or signal = failed")

    def feats(s, opt, ints, extra, val, **more):
        f14, nar, neg, _ = flags(idl, s, val)
        f = {"struct": s, "opt": opt, "ints": ints, "has_field14": f14, "narrow_int": nar, "i8_negative": neg}
        f.update(extra)
        f.update(more)
        return f

    # ---- enumerate jobs (parent: values -> features; workers: the same values -> the checks) ----------
    jobs, skipped = [], 0
    contracts = {
        GA: "strict_idl_decode(to_bytes(x)) == x and x == from_buffer(to_bytes(x))",
        GF: "strict_idl_decode(to_bytes(from_buffer(spec_encode(x)))) == x",
        GP: "x == pickle.loads(pickle.dumps(x)) and the unpickled values are x's",
        GE: "from_buffer(to_bytes(x)) == x ; pickle.loads(pickle.dumps(x)) == x (parsed object on the left)"}
    for s, opt, ints, top, extra in enumerate_specs(idl, ctx.tier):
        nontriv = bool(idl.structs[s])
        spec = [s, opt, ints, top, extra]
        val = make_value(idl, s, opt, ints, top, extra, seed, include_crypto=False)
        fval = make_value(idl, s, opt, ints, top, extra, seed, include_crypto=True)
        if len(T.enc(idl, s, val)) > INPROC_LIMIT or len(T.enc(idl, s, fval)) > INPROC_LIMIT:
            skipped += 1
            continue
        variants = [("str", "omitted")]
        if ints == "rand" or top:
            variants = [("str", "omitted"), ("bytes", "None")]
        for text_as, absent_as in variants:
            jobs.append((GA, feats(s, opt, ints, extra, val, path="api", text_as=text_as, absent_as=absent_as), nontriv,
                         spec, False, "check_api", [text_as, absent_as], val))
        jobs.append((GF, feats(s, opt, ints, extra, fval, path="foreign"), nontriv, spec, True, "check_foreign", [], fval))
        for source, v in (("api", val), ("foreign", fval)):
            jobs.append((GP, feats(s, opt, ints, extra, v, path="pickle", source=source), nontriv, spec,
                         source == "foreign", "check_pickle", [source], v))
            has_str = flags(idl, s, v)[3]
            for text_as in (("str", "bytes") if source == "api" and has_str else ("str",)):
                for via in ("to_bytes", "pickle"):
                    F = feats(s, opt, ints, extra, v, path="eq", source=source, via=via,
                              str_scalar_given_as_str=bool(source == "api" and has_str and text_as == "str"))
                    jobs.append((GE, F, nontriv, spec, source == "foreign", "check_eq", [source, text_as, via], v))
    if skipped:
        ctx.note(f"c10: {skipped} generated values above the in-process size cap were skipped")

    # over-size payloads run concurrently with the workers (each in its own child process)
    sizes = [400_000, 499_000, 500_100, 600_000, 2_000_000]
    if ctx.tier == "quick":
        ojobs = [(site, n, "api") for site in OVERSIZE_SITES for n in (499_000, 600_000)]
        ojobs += [(site, 600_000, "foreign") for site in OVERSIZE_SITES[::2]]
        ojobs += [(site, 2_000_000, "api") for site in OVERSIZE_SITES[1::4]]
    else:
        ojobs = [(site, n, p) for site in OVERSIZE_SITES for n in sizes + [499_900, 499_990, 500_000, 1_000_000]
                 for p in ("api", "foreign")]
    ncpu = os.cpu_count() or 2
    ujobs = enumerate_updates(ctx.tier)
    with concurrent.futures.ThreadPoolExecutor(max_workers=10) as oex:
        ofuts = [oex.submit(run_oversize, j) for j in ojobs]
        ufuts = [oex.submit(run_update, j) for j in ujobs]
        wire = [{"spec": j[3], "crypto": j[4], "fn": j[5], "args": j[6], "seed": seed} for j in jobs]
        results, unevaluated = run_worker_jobs(wire, max(2, min(8, ncpu - 6)))
        oresults = [f.result() for f in ofuts]
        uresults = [f.result() for f in ufuts]
    for (group, F, nontriv, spec, crypto, fn, args, v), what in zip(jobs, results):
        if what == NOT_EVALUATED:
            continue
        call = f"{fn}(T, idl, TO, SNAME, VAL" + "".join(f", {a!r}" for a in args) + ")"
        with Case(ctx, group, F, nontrivial=nontriv, snippet=LazySnippet(call, spec[0], v), contract=contracts[group]) as c:
            if what:
                c.fail(what)
    if unevaluated:
        ctx.note(f"c10: {unevaluated} cases were not evaluated because worker processes kept dying (each death is "
                 "reported as a failed case); they are not counted as evaluations")

    # ---- over-size payloads: child processes only ----------------------------------------------
    for site, n, path, what, size in oresults:
        F = {"site": site, "payload_bytes": n, "serialised_gt_500000": None if size is None else size > 500_000,
             "path": path}
        with Case(ctx, GO, F, snippet=oversize_snippet(site, n, path),
                  contract="to_bytes never truncates: strict_idl_decode(to_bytes(x)) == x for any size") as c:
            if what:
                c.fail(what)

    # ---- key-value update path: child processes only ---------------------------------------------
    for case, what, size in uresults:
        F = dict(case, utf8_bytes_gt_500000=None if size is None else size > 500_000,
                 chars_lt_utf8_bytes=None if size is None else case["chars"] < size)
        with Case(ctx, GU, F, snippet=update_snippet(case),
                  contract="update_custom_metadata stores key / value texts as bytes; the re-serialised footer decodes strictly "
                           "to the old entries + the updated one for any value length; re-open gives value and data back") as c:
            if what:
                c.fail(what)


if __name__ == "__main__":
    _worker_main()
