"""C17 (bounded): metadata-only answers match the data actually read.

Class contract on `ParquetFile`, evaluated for one handle `pf = ParquetFile(path, pandas_nulls=..., dtypes=...)`
and one tuple of read options O = (columns, categories, index):

    out = pf.to_pandas(**O)
    names     default columns: list(out.columns) == [c for c in pf.columns if c not in index] + list(pf.cats)
              explicit columns: set(out.columns) == set(requested) - index   (order is the caller's business)
              pf.info['columns'] == pf.columns, pf.info['partitions'] == list(pf.cats)
    dtypes    for every column c of out: pf._dtypes(categories)[c] (== pf.dtypes afterwards) denotes out[c].dtype;
              the entry must BE a dtype (something pandas_dtype accepts) or the string 'category';
              index columns: predicted dtype == out.index dtype (masked integer -> its numpy dtype)
    categ.    {categorical non-partition columns of out} == {c : prediction says 'category'}; with categories=None
              this set == set(pf.categories) & columns read
    partit.   every key of pf.cats read is categorical in out, and the values seen == the values listed in pf.cats
    index     pf._get_index(index) == names of out.index ([] <-> automatic RangeIndex; __index_level_N__ <-> None)
    counts    pf.count() == pf.info['rows'] == len(out); pf.info['row_groups'] == len(pf) == number of row groups;
              rg.num_rows == len(pf[i].to_pandas()) for every row group (once per handle)
    override  ParquetFile(path, dtypes=D): pf.dtypes == D (+ categories) and the read realises D;
              to_pandas(dtypes=D): columns and dtypes of the result are D's.
    handle    the same contract for a handle restored from a pickle, copied with copy.copy, or selected with pf[:]
              (what the handle predicts must survive the round trip together with what the read needs, e.g. timezones).
    derived   ... and for handles DERIVED by selecting row groups of a dataset with >= 2 row groups: pf[0], pf[-1],
              pf[1:], pf[:1], pf[::2], and pickled / copied / deep-copied selections: count(), info['rows'], the
              per-row-group num_rows and the rows of to_pandas() of THAT handle agree (a subset of the option tuples).
    many      datasets made of SEVERAL files sharing a categorical column whose label counts differ (nested label sets
              7/40/90/300, 90/200, 100/200/300, 200/90: straddling the int8 code width, decimal strings ordered unlike
              the values), opened via list, directory without _metadata, glob and after merge(): pf.categories announces
              at least the largest label count the read meets (and not more than the largest count of any file), the
              dtype prediction says 'category', the read succeeds, has no more labels than announced, and returns every
              row with its label.
Datasets: runtime.ds_read QUICK + TZ (tz-aware datetime columns as data and as written index) + foreign fixtures
+ the many-files datasets built here.
"""
import concurrent.futures as cf
import itertools
import os
import re

import numpy as np
import pandas as pd

from runtime import ds_read as D
from runtime.harness import Case, tmpdir, import_fastparquet

G = "c17.meta_vs_read"
CONTRACT = ("pf.columns / dtypes / _dtypes(categories) / categories / cats / _get_index() / count() / info / per-row-group "
            "num_rows equal column order, dtypes, categorical, partition and index columns and shape of pf.to_pandas(**opts)")

DATASETS = list(D.QUICK) + list(D.TZ)
HANDLES = ["open", "pickle", "copy", "getitem"]
# handles derived by a row-group selection (datasets with >= 2 row groups)
DERIVED = ["pick_first", "pick_last", "slice_tail", "slice_head", "slice_step2", "pickle_of_slice", "copy_of_pick",
           "deepcopy_of_slice"]
FOREIGN = ["nation.plain.parquet", "nation.impala.parquet", "snappy-nation.impala.parquet", "gzip-nation.impala.parquet",
           "datapage_v2.snappy.parquet", "decimals.parquet", "empty.parquet", "foo.parquet", "metas.parq", "mr_times.parq",
           "test-null.parquet", "test-null-dictionary.parquet", "test-converted-type-null.parquet",
           "test-timezone.parquet", "test.parquet", "non-std-kvm.fp-0.8.2.parquet", "no_columns.parquet",
           "no_columns_new.parquet", "baz.parquet", "split", "multi_rgs_pyarrow", "spark-date-empty-rg.parq",
           "dir_metadata", "evo"]

CHECK_SRC = r'''
import re
import numpy as np, pandas as pd

def _norm_names(names):
    return [None if (n is None or re.match(r"__index_level_\d+__$", str(n))) else n for n in names]

def _as_dtype(p):
    """prediction -> pandas dtype, 'category', or raise"""
    if isinstance(p, str) and p == "category":
        return "category"
    if isinstance(p, pd.CategoricalDtype):
        return "category"
    if not isinstance(p, (str, np.dtype, pd.api.extensions.ExtensionDtype, type)):
        raise TypeError("prediction %r (%s) is not a dtype" % (p, type(p).__name__))
    return pd.api.types.pandas_dtype(p)

def _pyval(v):
    if isinstance(v, (np.datetime64, pd.Timestamp)):
        return pd.Timestamp(v).value
    if isinstance(v, np.generic):
        return v.item()
    return v

def make_handle(pf, kind):
    """the handle under contract: as opened, restored from a pickle, copied, or the all-row-groups selection"""
    import copy, pickle
    if kind == "pickle":
        return pickle.loads(pickle.dumps(pf))
    if kind == "copy":
        return copy.copy(pf)
    if kind == "getitem":
        return pf[:]
    if kind == "pick_first":
        return pf[0]
    if kind == "pick_last":
        return pf[-1]
    if kind == "slice_tail":
        return pf[1:]
    if kind == "slice_head":
        return pf[:1]
    if kind == "slice_step2":
        return pf[::2]
    if kind == "pickle_of_slice":
        return pickle.loads(pickle.dumps(pf[1:]))
    if kind == "copy_of_pick":
        return copy.copy(pf[-1])
    if kind == "deepcopy_of_slice":
        return copy.deepcopy(pf[:-1])
    return pf

def check_meta(pf, opts, per_rg=False):
    """None or a message.  `opts`: kwargs of to_pandas among columns / categories / index."""
    cats_opt = opts.get("categories")
    out = pf.to_pandas(**opts)
    pred = pf._dtypes(cats_opt)
    if dict(pf.dtypes) != dict(pred):
        return "pf.dtypes != pf._dtypes(categories) right after the call"
    ixp = list(pf._get_index(opts.get("index")) or [])
    parts = list(pf.cats)
    # ---- names
    if isinstance(out.index, pd.RangeIndex):
        got_ix = []
    else:
        got_ix = list(out.index.names)
    if _norm_names(got_ix) != _norm_names(ixp):
        return "index: _get_index()=%r but the frame's index is %r" % (ixp, got_ix)
    ocols = [str(c) for c in out.columns]
    if opts.get("columns") is None:
        want = [c for c in pf.columns if c not in ixp] + parts
        if ocols != [str(c) for c in want]:
            return "columns: pf.columns + partitions predict %r, read gives %r" % (want, ocols)
    else:
        want = [c for c in opts["columns"] if c not in ixp]
        if sorted(ocols) != sorted(str(c) for c in want):
            return "columns: requested %r (index %r), read gives %r" % (opts["columns"], ixp, ocols)
    info = pf.info
    if list(info["columns"]) != list(pf.columns) or list(info["partitions"]) != parts:
        return "info columns/partitions %r / %r != pf.columns / pf.cats %r / %r" % (info["columns"], info["partitions"], pf.columns, parts)
    # ---- dtypes
    pcat = set()
    for c in out.columns:
        if c not in pred:
            return "dtypes: no prediction for column %r that the read returns" % (c,)
        try:
            p = _as_dtype(pred[c])
        except Exception as e:
            return "dtypes[%r]: %s" % (c, e)
        real = out[c].dtype
        if p == "category":
            pcat.add(c)
            if not isinstance(real, pd.CategoricalDtype):
                return "dtypes[%r]: predicted category, read gives %s" % (c, real)
        elif isinstance(real, pd.CategoricalDtype) or p != real:
            return "dtypes[%r]: predicted %s, read gives %s" % (c, p, real)
    if ixp and not isinstance(out.index, pd.MultiIndex):
        c = ixp[0]
        if c not in pred:
            return "dtypes: no prediction for index column %r" % (c,)
        p = _as_dtype(pred[c])
        real = out.index.dtype
        if p == "category":
            if not isinstance(real, pd.CategoricalDtype):
                return "index dtype: predicted category, read gives %s" % real
        else:
            if isinstance(p, pd.core.arrays.masked.BaseMaskedDtype):
                p = p.numpy_dtype
            if isinstance(real, pd.CategoricalDtype) or p != real:
                return "index dtype: predicted %s, read gives %s" % (p, real)
    # ---- categorical columns
    rcat = {c for c in out.columns if isinstance(out[c].dtype, pd.CategoricalDtype)}
    if rcat != pcat:
        return "categorical columns: predicted %s, read gives %s" % (sorted(pcat), sorted(rcat))
    if cats_opt is None:
        pc = {c for c in pf.categories if c in out.columns}
        if pc != rcat - set(parts):
            return "pf.categories says %s, read gives %s" % (sorted(pc), sorted(rcat - set(parts)))
        if isinstance(pf.categories, dict):
            for c in sorted(pc):
                ann = pf.categories[c]
                if isinstance(ann, (int, np.integer)) and len(out[c].cat.categories) > ann:
                    return "pf.categories announces %d categories for %r, the read column has %d" % (ann, c, len(out[c].cat.categories))
    # ---- partition columns
    for c in parts:
        if c in out.columns:
            if c not in rcat:
                return "partition column %r not categorical in the read" % (c,)
            seen = {_pyval(v) for v in out[c].astype(object).dropna().unique()}
            listed = {_pyval(v) for v in pf.cats[c]}
            if opts.get("columns") is None or True:
                if not seen <= listed or (len(out) == pf.count() and seen != listed):
                    return "partition %r: pf.cats lists %s, read shows %s" % (c, sorted(map(str, listed)), sorted(map(str, seen)))
    # ---- counts
    n = pf.count()
    if not (n == info["rows"] == len(out)):
        return "counts: count()=%r info['rows']=%r rows read=%d" % (n, info["rows"], len(out))
    if not (info["row_groups"] == len(pf) == len(pf.row_groups)):
        return "row groups: info %r, len(pf) %r, list %d" % (info["row_groups"], len(pf), len(pf.row_groups))
    if per_rg:
        for i, rg in enumerate(pf.row_groups):
            m = len(pf[i].to_pandas(**opts))
            if m != rg.num_rows:
                return "row group %d: num_rows=%d, rows read=%d" % (i, rg.num_rows, m)
        if sum(rg.num_rows for rg in pf.row_groups) != n:
            return "sum of num_rows != count()"
    return None

def check_many(pf, opts, expect, counts):
    """many-files dataset: check_meta + announced category count + every row with its label.
    expect = (row ids, labels) of the whole dataset in file order; counts = label count of each file."""
    msg = check_meta(pf, opts, per_rg=not opts)
    if msg:
        return msg
    ann = pf.categories.get("c") if isinstance(pf.categories, dict) else None
    if not isinstance(ann, (int, np.integer)) or not (max(counts) <= ann <= max(counts)):
        return "pf.categories announces %r categories for 'c', the files carry %r labels" % (ann, counts)
    if opts.get("columns") is not None and not {"rid", "c"} <= set(opts["columns"]):
        return None
    out = pf.to_pandas(**opts)
    rid = [int(v) for v in out["rid"]]
    lab = [None if v is None or v != v else str(v) for v in out["c"].astype(object)]
    if len(rid) == len(expect[0]) and (rid != list(expect[0]) or lab != list(expect[1])):
        k = next(i for i in range(len(rid)) if rid[i] != expect[0][i] or lab[i] != expect[1][i])
        return "row %d: read (rid=%r, c=%r), the files hold (rid=%r, c=%r)" % (k, rid[k], lab[k], expect[0][k], expect[1][k])
    return None

def check_override_open(fastparquet, path, override, pandas_nulls=True):
    pf = fastparquet.ParquetFile(path, dtypes=dict(override), pandas_nulls=pandas_nulls)
    base = {k: v for k, v in pf.dtypes.items() if k not in pf.cats}
    for k, v in override.items():
        if k in pf.categories:
            continue
        if str(base.get(k)) != str(v):
            return "ParquetFile(dtypes=D).dtypes[%r] = %r, D says %r" % (k, base.get(k), v)
    return check_meta(pf, {})

def check_override_read(pf, override):
    out = pf.to_pandas(dtypes=dict(override))
    ixp = list(pf._get_index() or [])
    want = [c for c in override if c not in ixp]
    if sorted(map(str, out.columns)) != sorted(want + [c for c in pf.cats if c in override and c not in want]):
        return "to_pandas(dtypes=D): columns %r, D has %r" % (list(out.columns), list(override))
    for c in want:
        p = override[c]
        real = out[c].dtype
        if p == "category":
            if not isinstance(real, pd.CategoricalDtype):
                return "to_pandas(dtypes=D)[%r]: D says category, read gives %s" % (c, real)
        elif pd.api.types.pandas_dtype(p) != real:
            return "to_pandas(dtypes=D)[%r]: D says %s, read gives %s" % (c, p, real)
    if len(out) != pf.count():
        return "to_pandas(dtypes=D): %d rows, count() %d" % (len(out), pf.count())
    return None
'''
_ns = {}
exec(CHECK_SRC, _ns)
check_meta, check_override_open, check_override_read = _ns["check_meta"], _ns["check_override_open"], _ns["check_override_read"]
make_handle, check_many = _ns["make_handle"], _ns["check_many"]

# ---- many-files datasets: files sharing a categorical column with DIFFERENT label counts ----------------------
MANY = {"cats_7_40_90_300": [7, 40, 90, 300], "cats_90_200": [90, 200], "cats_100_200_300": [100, 200, 300],
        "cats_200_90": [200, 90]}
MANY_OPENS = ["list", "dir", "glob", "merge"]


def many_code(name, mode):
    """python source (names fastparquet, np, pd, os, D in scope) that writes the files of many-files dataset `name`
    below D and binds `path` (what ParquetFile is given), `EXPECT` (row ids, labels in file order), `COUNTS`.
    Label sets are prefixes of one another; a file's rows use its highest code only when no later file has fewer
    labels (otherwise the known defect 'dictionary of the last row group labels the whole column' would interfere)."""
    return "\n".join([
        "COUNTS = %r" % (MANY[name],),
        "_dir = os.path.join(D, %r)" % (name + "-" + mode),
        "os.makedirs(_dir)",
        "_files, _rid, _lab = [], [], []",
        "for _i, _n in enumerate(COUNTS):",
        "    _labels = ['L%03d' % _j for _j in range(_n)]",
        "    _top = min(COUNTS[_i:])        # codes below the smallest count of this and every later file",
        "    _codes = [(_q * 37 + _i + _top - 1) % _top for _q in range(5)]",
        "    _df = pd.DataFrame({'rid': np.arange(5, dtype='int64') + 10 * _i,",
        "                        'c': pd.Categorical.from_codes(_codes, categories=_labels),",
        "                        'v': np.arange(5) * 0.5 + _i})",
        "    _fn = os.path.join(_dir, 'f%d.parquet' % _i)",
        "    fastparquet.write(_fn, _df, row_group_offsets=[0, 3] if _i % 2 else [0])",
        "    _files.append(_fn)",
        "    _rid += [int(_v) for _v in _df['rid']]",
        "    _lab += [_labels[_k] for _k in _codes]",
        "EXPECT = (_rid, _lab)",
        "src = None",
        {"list": "path = list(_files)", "dir": "path = _dir", "glob": "path = os.path.join(_dir, '*.parquet')",
         "merge": "fastparquet.writer.merge(list(_files))\npath = _dir"}[mode],
    ])


class ManyDS:
    foreign = False
    index_kind = "none"
    index_col = None

    def __init__(self, fp, root, name, mode):
        env = {"fastparquet": fp, "np": np, "pd": pd, "os": os, "D": root}
        exec(many_code(name, mode), env)
        self.name, self.mode = "many:%s:%s" % (name, mode), mode
        self.path, self.expect, self.counts = env["path"], env["EXPECT"], env["COUNTS"]

    def open(self, fp, **kw):
        return fp.ParquetFile(self.path, **kw)


def run_many(args):
    root, name, mode, tier = args
    fp = import_fastparquet()
    res = []
    try:
        ds = ManyDS(fp, root, name, mode)
    except Exception as e:
        f = {"ds": "many:%s:%s" % (name, mode), "open": mode, "label_counts": ",".join(map(str, MANY[name])), "handle": "open",
             "columns": "all", "categories": "None", "index": "None", "pandas_nulls": True, "dtypes": "none"}
        return [(f, False, "dataset could not be built: %s: %s" % (type(e).__name__, str(e)[:200]), True, ("many", name, mode, ("open", {}, {})))]
    colopts = [("all", None), ("one", ["c"]), ("pair_permuted", ["c", "rid"]), ("without_categorical", ["rid", "v"])]
    catopts = [("None", None), ("list", ["c"]), ("empty_list", [])]
    for pn in (True, False):
        for (cn, c), (kn, k), handle in itertools.product(colopts, catopts, HANDLES + DERIVED):
            if k and c is not None and "c" not in c:
                continue
            if handle in DERIVED and (cn, kn) not in (("all", "None"), ("one", "None"), ("all", "list")):
                continue
            if not pn and (handle != "open" or kn != "None"):
                continue
            opts = {}
            if c is not None:
                opts["columns"] = list(c)
            if k is not None:
                opts["categories"] = k
            f = {"ds": ds.name, "scheme": "many", "pandas_md": True, "written_index": "none", "handle": handle,
                 "override_has_tz": False, "columns": cn, "categories": kn, "index": "None", "pandas_nulls": pn,
                 "dtypes": "none", "reads_stat_nullable_int": False, "open": mode,
                 "label_counts": ",".join(map(str, ds.counts))}
            try:
                base = ds.open(fp, pandas_nulls=pn)
                pf = make_handle(base, handle)
                if handle in DERIVED:
                    what = check_meta(pf, opts, per_rg=not opts)     # the selection's own counts / dtypes / categories
                else:
                    what = check_many(pf, opts, ds.expect, ds.counts)
            except Exception as e:
                what = "%s: %s" % (type(e).__name__, str(e)[:200])
            res.append((f, what is None, what, True, ("many", name, mode, (handle, {"pandas_nulls": pn}, opts))))
    return res


def option_tuples(fp, ds, tier):
    """-> list of (features, open_kwargs, read_opts)"""
    pf = ds.open(fp)
    cols = list(pf.columns)
    parts = list(pf.cats)
    ixd = list(pf._get_index() or [])
    data = [c for c in cols if c not in ixd]
    dt = pf.dtypes
    catcols = [c for c in data if str(dt.get(c)) == "category"]
    colopts = [("all", None)]
    if data:
        colopts.append(("one", [data[0]]))
    if len(data) >= 2:
        colopts.append(("pair_permuted", [data[-1], data[0]]))
    if parts and data:
        colopts.append(("partition+data", [parts[-1], data[0]]))
        colopts.append(("partition_only", [parts[0]]))
    if catcols and len(data) > 1:
        colopts.append(("without_categorical", [c for c in data if c not in catcols][:3]))
    catopts = [("None", None)]
    if catcols:
        catopts.append(("list", list(catcols)))
        catopts.append(("dict", {c: 3 for c in catcols}))
        catopts.append(("empty_list", []))
    ixopts = [("None", None), ("False", False)]
    if not ds.foreign and len(pf.row_groups):
        ntz = 0
        for c in data:
            k = str(dt.get(c))
            if isinstance(dt.get(c), pd.DatetimeTZDtype):
                ntz += 1
                if ntz <= 2:        # tz-aware datetime columns as the index (first two zones)
                    ixopts.append(("tz_datetime_column" + ("" if ntz == 1 else str(ntz)), c))
            elif (k.startswith("datetime64") or k.startswith("<M8") or "M8" in k) and \
                    not any(n == "datetime_column" for n, _ in ixopts):
                ixopts.append(("datetime_column", c))
        if catcols:
            ixopts.append(("categorical_column", catcols[0]))
    out = []
    for pn in (True, False):
        for (cn, c), (kn, k), (xn, x) in itertools.product(colopts, catopts, ixopts):
            if isinstance(x, str) and c is not None and x in c:
                continue
            if isinstance(k, (list, dict)) and k and c is not None and not all(cc in c for cc in k):
                # categories naming a column that is not read: allowed by the API only if listed; keep the tuple simple
                k2 = [cc for cc in k if cc in c]
                k = (k2 if isinstance(k, list) else {cc: 3 for cc in k2})
            if isinstance(x, str) and isinstance(k, (list, dict)) and x in k:
                pass
            opts = {}
            if c is not None:
                opts["columns"] = list(c)
            if k is not None:
                opts["categories"] = k
            if x is not None:
                opts["index"] = x
            out.append(({"columns": cn, "categories": kn, "index": xn, "pandas_nulls": pn, "dtypes": "none"},
                        {"pandas_nulls": pn}, opts))
    return out


def overrides(fp, ds):
    """dtype overrides: the natural dtypes with one column changed to another dtype that can hold its values"""
    pf = ds.open(fp)
    nat = {k: v for k, v in pf.dtypes.items() if k not in pf.cats}
    out = []
    for c, v in nat.items():
        s = str(v)
        if s == "int64":
            out.append(("int64->float64", c, "float64"))
        elif s == "float64":
            out.append(("float64->float32", c, "float32"))
    seen, res = set(), []
    for name, c, new in out:
        if name in seen:
            continue
        seen.add(name)
        o = dict(nat)
        o[c] = new
        res.append((name, c, o))
    return res


def run_dataset(args):
    root, name, tier = args
    fp = import_fastparquet()
    ds = D.foreign_all([name[len("foreign:"):]])[0] if name.startswith("foreign:") else D.build_one(fp, root, name, write=False)
    res = []
    pf0 = ds.open(fp)
    rows = int(sum(rg.num_rows for rg in pf0.row_groups))
    base = {"ds": ds.name, "scheme": pf0.file_scheme, "pandas_md": bool(pf0.has_pandas_metadata),
            "written_index": ds.index_kind if not ds.foreign else "file"}
    first = {}
    masked = {c for c, v in pf0.dtypes.items() if isinstance(v, pd.core.arrays.masked.BaseMaskedDtype)}
    nrg = len(pf0.row_groups)
    tuples = option_tuples(fp, ds, tier)
    # derived (row-group selected) handles: the default tuple, every 7th tuple (thorough: every 2nd)
    step = 7 if tier == "quick" else 2
    work = [(t, h) for t in tuples for h in HANDLES]
    if nrg >= 2:
        work += [(t, h) for k, t in enumerate(tuples) for j, h in enumerate(DERIVED) if not t[2] or (k + j) % step == 0]
    for (feats, okw, opts), handle in work:
        f = dict(base, handle=handle, override_has_tz=False, **feats)
        # columns whose dtype the library decides from the null statistics (no pandas metadata): nullable under
        # pandas_nulls=True, float64 under pandas_nulls=False
        f["reads_stat_nullable_int"] = bool(masked & set(opts.get("columns") or pf0.columns)) and not base["pandas_md"]
        try:
            pf = make_handle(ds.open(fp, **okw), handle)
            per_rg = not first.get((okw["pandas_nulls"], handle)) and not opts
            if per_rg:
                first[(okw["pandas_nulls"], handle)] = True
            what = check_meta(pf, opts, per_rg=per_rg)
        except Exception as e:
            what = "%s: %s" % (type(e).__name__, str(e)[:200])
        res.append((f, what is None, what, rows > 0, ("meta", ds.name, (okw, handle), opts)))
    if not ds.foreign or ds.name in ("foreign:test.parquet", "foreign:decimals.parquet", "foreign:datapage_v2.snappy.parquet"):
        for oname, c, o in overrides(fp, ds):
            for mode in ("open", "read"):
                f = dict(base, handle="open", columns="all", categories="None", index="None", pandas_nulls=True, dtypes=mode + ":" + oname)
                # the override dict (natural dtypes, one column changed) names a tz-aware datetime dtype
                f["override_has_tz"] = any(isinstance(v, pd.DatetimeTZDtype) for v in o.values())
                try:
                    if mode == "open":
                        what = check_override_open(fp, ds.path, o)
                    else:
                        what = check_override_read(ds.open(fp), o)
                except Exception as e:
                    what = "%s: %s" % (type(e).__name__, str(e)[:200])
                res.append((f, what is None, what, rows > 0, ("override_" + mode, ds.name, {k: str(v) for k, v in o.items()}, None)))
    return res


def _snippet_many(name, mode, hk):
    handle, okw, opts = hk
    body = CHECK_SRC + '''
pf = make_handle(fastparquet.ParquetFile(path, **%r), %r)
msg = check_meta(pf, %r, per_rg=True) if %r else check_many(pf, %r, EXPECT, COUNTS)
print("difference:", msg)
VIOLATED = msg is not None
''' % (okw, handle, opts, handle in DERIVED, opts)
    return (D._SNIP_HEAD % {"source_frame": "", "build": D._indent(many_code(name, mode))}
            + D._indent(body, 8) + D._SNIP_TAIL)


def _snippet(kind, dsname, a, b):
    if kind == "many":
        return _snippet_many(dsname, a, b)
    if kind == "meta":
        body = CHECK_SRC + '''
pf = make_handle(fastparquet.ParquetFile(path, **%r), %r)
msg = check_meta(pf, %r, per_rg=True)
print("difference:", msg)
VIOLATED = msg is not None
''' % (a[0], a[1], b)
    elif kind == "override_open":
        body = CHECK_SRC + '''
msg = check_override_open(fastparquet, path, %r)
print("difference:", msg)
VIOLATED = msg is not None
''' % (a,)
    else:
        body = CHECK_SRC + '''
msg = check_override_read(pf, %r)
print("difference:", msg)
VIOLATED = msg is not None
''' % (a,)
    return D.make_snippet(dsname, body)


def run_bounded(ctx):
    fp = import_fastparquet()
    ctx.bounded_group(G, rule=(
        "own datasets %s + foreign fixtures %s (size-0 files skipped) x pandas_nulls {True, False} x columns {all, one, "
        "permuted pair, partition+data, partition only, without the categorical} x categories {None, list, dict, []} "
        "x index {None, False, a datetime column, a categorical column} (named-index options only on own files; "
        "non-datetime/non-categorical named indexes and MultiIndex are C06's known findings and not used here) + "
        "x handle {as opened, pickle.loads(pickle.dumps(pf)), copy.copy(pf), pf[:]}; the TZ datasets carry tz-AWARE "
        "datetime64 columns (Europe/London, UTC, Asia/Kolkata) as data and as the written index (single file v1 multi-page / "
        "hive partitioned v2) and add index {first, second tz-aware column} - predicted dtypes are compared INCLUDING the "
        "timezone with the dtypes of the columns and of the index of the frame read; + "
        "dtype overrides {int64->float64, float64->float32} given to ParquetFile(dtypes=) and to "
        "to_pandas(dtypes=); per-row-group counts once per handle; + DERIVED handles %s (row-group selections of every "
        "dataset with >= 2 row groups, pickled / copied selections) x the default option tuple and every 7th tuple "
        "(thorough: every 2nd): the selection's own count() / info / num_rows / dtypes / categories vs its own read; + "
        "MANY-FILES datasets %s (label counts of a shared categorical column per file, nested label sets, 5 rows per "
        "file, every second file in two row groups) x opened via %s x columns {all, c, (c,rid), without c} x categories "
        "{None, [c], []} x all handles: announced number of categories, prediction, labels of every row. distinct = "
        "(dataset, option tuple); nontrivial = dataset has rows." % (DATASETS, FOREIGN, DERIVED, MANY, MANY_OPENS)))
    with tmpdir("verif-c17-") as root:
        D.build_all(fp, root, DATASETS)
        tasks = [(root, n, ctx.tier) for n in DATASETS]
        for f in FOREIGN:
            p = os.path.join(D.TEST_DATA, f)
            if os.path.exists(p) and not (os.path.isfile(p) and os.path.getsize(p) == 0):
                tasks.append((root, "foreign:" + f, ctx.tier))
        many_tasks = [(root, n, m, ctx.tier) for n in MANY for m in MANY_OPENS]
        from runtime.harness import robust_map, WorkerDied
        nw = min(16, os.cpu_count() or 4)
        results = robust_map(run_dataset, tasks, nw) + robust_map(run_many, many_tasks, nw)
        for k, r in enumerate(results):
            if isinstance(r, WorkerDied):      # the real library killed the process: a failing case, not a checker crash
                results[k] = [({"ds": str(r.task[1]), "kind": "process died"}, False, r.what(), True, None)]
    for res in results:
        for feats, ok, what, nontrivial, rp in res:
            with Case(ctx, G, feats, snippet=None if ok or rp is None else _snippet(*rp), nontrivial=nontrivial, contract=CONTRACT) as c:
                if not ok:
                    c.fail(what)
