#!/bin/bash
# Build the offline overlay venv for /verif (python 3.12 + wheelhouse + .pth onto /venv's site-packages).
# Idempotent; called by MANIFEST.setup_cmd and by ./check when .venv is missing.
set -e
cd "$(dirname "$0")"
V=.venv
if [ -x $V/bin/python ] && $V/bin/python -c "import z3, deal, jsonschema, lark, fastparquet, pandas" 2>/dev/null; then
  exit 0
fi
rm -rf $V
PY=/root/.pyenv/versions/3.12.1/bin/python3.12
[ -x $PY ] || PY=/venv/bin/python
$PY -m venv $V
PIP_NO_INDEX=1 $V/bin/pip install -q --no-index --find-links /opt/veriftools/wheels \
    z3-solver cvc5 deal icontract crosshair-tool jsonschema lark >/dev/null
SP=$($V/bin/python -c "import site; print(site.getsitepackages()[0])")
echo "import site; site.addsitedir('/venv/lib/python3.12/site-packages')" > $SP/_repo.pth
$V/bin/python -c "import z3, deal, jsonschema, lark, fastparquet, pandas; print('verif venv ok', z3.get_version_string())"
