import argparse, importlib, os, sys, json
from .common import run_check

def main():
    ap = argparse.ArgumentParser()
    ap.add_argument("prop")
    ap.add_argument("--tier", default=os.environ.get("VERIF_TIER", "quick"), choices=["quick", "thorough"])
    ap.add_argument("--replay", default=None)
    a = ap.parse_args()
    seed = int(os.environ.get("VERIF_SEED", "0") or 0)
    mod = importlib.import_module(f"props.{a.prop}")
    if a.replay:
        sys.exit(mod.replay(a.replay) if hasattr(mod, "replay") else _generic_replay(a.replay))
    sys.exit(run_check(a.prop, mod.run, a.tier, seed))

def _generic_replay(path):
    r = json.load(open(path))
    print(json.dumps(r, indent=1)[:4000])
    snippet = r.get("snippet")
    if snippet:
        g = {}
        exec(snippet, g)
        return 1 if g.get("VIOLATED") else 0
    return 0

if __name__ == "__main__":
    sys.path.insert(0, os.path.dirname(os.path.dirname(os.path.abspath(__file__))))
    main()
