"""Shared infrastructure of the /verif checks: run context, obligations, bounded cases,
known findings, VIOLATION / KNOWN-FINDING reporting, evidence files, exit codes.

Exit codes (DESIGN 3.11): 0 held (modulo listed known findings) / 1 violation outside the
known regions / 3 engine failure (crash, zero obligations, translation-validation mismatch).
An obligation that is `unknown` is *undecided*: never a violation.
"""
import hashlib
import json
import os
import re
import sys
import time
import traceback

VERIF = os.path.dirname(os.path.dirname(os.path.abspath(__file__)))
REPO = os.environ.get("VERIF_REPO", "/repo")
EVIDENCE_DIR = os.environ.get("VERIF_EVIDENCE_DIR") or os.path.join(VERIF, "evidence")
REPLAY_DIR = os.environ.get("VERIF_REPLAY_DIR") or os.path.join(VERIF, "out", "replays")
KNOWN_FILE = os.environ.get("VERIF_KNOWN_FILE") or os.path.join(VERIF, "KNOWN_FINDINGS.jsonl")

PROVED, REFUTED, UNKNOWN = "proved", "refuted", "unknown"


def repo_src(rel):
    with open(os.path.join(REPO, rel)) as f:
        return f.read()


def sha(text):
    return hashlib.sha256(text.encode() if isinstance(text, str) else text).hexdigest()[:16]


def load_known(prop):
    """Known findings for one property: records with status 'known' suppress, 'fixed' suppress nothing."""
    out = []
    if os.path.exists(KNOWN_FILE):
        for line in open(KNOWN_FILE):
            line = line.strip()
            if not line or line.startswith("#"):
                continue
            rec = json.loads(line)
            if rec.get("property") == prop:
                out.append(rec)
    return out


class Ctx:
    """Collects everything one check run establishes and turns it into evidence + exit code."""

    def __init__(self, prop, tier="quick", seed=0):
        self.prop, self.tier, self.seed = prop, tier, seed
        self.t0 = time.time()
        self.obligations = []      # dicts: name, function, status, backend, secs, detail
        self.functions = {}        # qualified name -> {source_sha, extraction, n_obligations}
        self.bounded = []          # dicts: group, signature, ok
        self.bounded_groups = {}   # group -> {evaluations, signatures:set, rule, samples}
        self.violations = []       # (name, replay_path, confirmed)
        self.known_hits = []       # (finding id, what)
        self.notes = []
        self.assumptions = []
        self.trusted = []
        self.undecided = []
        self.engine_errors = []
        self.known = load_known(prop)
        self.samples = []
        self.tv = {"functions": 0, "inputs": 0, "mismatches": 0}   # translation validation
        self.vacuity = {"requires_sat": 0, "must_fail_sat": 0, "covers": 0}
        os.makedirs(REPLAY_DIR, exist_ok=True)
        os.makedirs(EVIDENCE_DIR, exist_ok=True)

    # ---- known findings -----------------------------------------------------------------
    def known_ids(self):
        return {r["id"] for r in self.known if r.get("status", "known") == "known"}

    def is_known(self, fid):
        return fid in self.known_ids()

    def known_record(self, fid):
        for r in self.known:
            if r["id"] == fid:
                return r

    def match_known_signature(self, group, features):
        """Bounded layer: a failed case is 'known' if a listed finding's `signature` (dict of
        feature -> value | list of values | {'re': pattern}) matches all given features."""
        for r in self.known:
            if r.get("status", "known") != "known" or r.get("kind") != "bounded":
                continue
            if r.get("group") not in (None, group):
                continue
            sig = r.get("signature") or {}
            ok = True
            for k, want in sig.items():
                have = features.get(k)
                if isinstance(want, dict) and "re" in want:
                    ok = have is not None and re.search(want["re"], str(have)) is not None
                elif isinstance(want, list):
                    ok = have in want
                else:
                    ok = have == want
                if not ok:
                    break
            if ok and sig:
                return r
        return None

    # ---- P layer -------------------------------------------------------------------------
    def function(self, qname, source_sha, extraction=None):
        first = qname not in self.functions
        self.functions.setdefault(qname, {"source_sha": source_sha, "extraction": extraction or {},
                                          "obligations": 0})
        if first and extraction and extraction.get("decorator_effects"):
            self._decorator_obligation(qname, extraction["decorator_effects"])

    def _decorator_obligation(self, qname, effects):
        """the extraction drops decorators: the contracts are discharged for the undecorated body. That is sound for transparent
        decorators; a CACHING decorator makes equal calls return the SAME object without running the body - sound only when every
        returned value is immutable (otherwise results alias across callers, and callers that mutate their result corrupt the others)"""
        name = f"extraction.decorators_are_transparent[{qname}]"
        status, detail, model = PROVED, "; ".join(e["decorator"] + " = " + e["class"] for e in effects), None
        for e in effects:
            if e["class"] == "caching":
                bad = [r for r in e["returns"] if r[2] == "mutable"]
                unk = [r for r in e["returns"] if r[2] == "unknown"]
                if bad:
                    status, model = REFUTED, {"decorator": e["decorator"], "returns_a_mutable_object": bad[:3]}
                    detail = (f"{e['decorator']} on a function under contract whose result is a mutable object (line {bad[0][0]}: return {bad[0][1]}): "
                              "equal arguments get the SAME object, the verified body is not what runs for the second call")
                    break
                if unk and status == PROVED:
                    status = UNKNOWN
                    detail = f"{e['decorator']}: cannot tell whether `return {unk[0][1]}` (line {unk[0][0]}) is immutable"
            elif e["class"] == "other" and status == PROVED:
                status = UNKNOWN
                detail = f"{e['decorator']}: unknown decorator dropped by the extraction - the verified body may not be what runs"
        self.obligation(name, qname, status, "ast", 0.0, detail=detail, model=model, sample=status != PROVED)
        if status == REFUTED:
            self.violation(name, {"function": qname, "model": model, "solver_output": detail, "snippet": None}, False, what=detail[:220])

    def obligation(self, name, function, status, backend="z3", secs=0.0, detail=None, model=None,
                   sample=False):
        rec = {"name": name, "function": function, "status": status, "backend": backend,
               "secs": round(secs, 4)}
        if detail:
            rec["detail"] = detail
        if model is not None:
            rec["model"] = model
        self.obligations.append(rec)
        if function in self.functions:
            self.functions[function]["obligations"] += 1
        if status == UNKNOWN:
            self.undecided.append(name)
        if sample and (len(self.samples) < 12 or status != PROVED):
            self.samples.append(rec)
        return rec

    # ---- B layer -------------------------------------------------------------------------
    def bounded_group(self, group, rule):
        self.bounded_groups.setdefault(group, {"evaluations": 0, "signatures": set(), "rule": rule,
                                               "samples": [], "failed": 0})

    def bounded_case(self, group, signature, nontrivial=True, sample=None):
        g = self.bounded_groups[group]
        g["evaluations"] += 1
        if nontrivial:
            g["signatures"].add(signature)
        if sample is not None and len(g["samples"]) < 5:
            g["samples"].append(sample)

    # ---- reporting -----------------------------------------------------------------------
    def violation(self, name, replay, confirmed, what=""):
        """Report a violation: writes the replay file, prints the VIOLATION line."""
        safe = re.sub(r"[^A-Za-z0-9_.\-]+", "_", name)[:120]
        path = os.path.join(REPLAY_DIR, f"{self.prop}-{safe}.json")
        replay = dict(replay)
        replay.setdefault("property", self.prop)
        replay.setdefault("obligation", name)
        replay["confirmed_on_real_code"] = bool(confirmed)
        with open(path, "w") as f:
            json.dump(replay, f, indent=1, default=str)
        tail = "" if confirmed else " no-failing-input-found"
        print(f"VIOLATION property={self.prop} replay={path}{tail}", flush=True)
        if what:
            print(f"  obligation {name}: {what}", flush=True)
        self.violations.append((name, path, confirmed))

    def known_finding(self, fid, what=None):
        rec = self.known_record(fid) or {}
        what = what or rec.get("what", "")
        if fid not in [k[0] for k in self.known_hits]:
            print(f"KNOWN-FINDING: property={self.prop} {fid}: {what}", flush=True)
            self.known_hits.append((fid, what))

    def note(self, s):
        self.notes.append(s)

    def engine_error(self, s):
        self.engine_errors.append(s)
        print(f"ENGINE-ERROR {self.prop}: {s}", file=sys.stderr, flush=True)

    # ---- evidence ------------------------------------------------------------------------
    def finish(self, level, explanation, checker_cmd=None, require_obligations=True):
        n_obl = len(self.obligations)
        discharged = sum(1 for o in self.obligations if o["status"] == PROVED)
        refuted_known = sum(1 for o in self.obligations if o["status"] == "refuted-known")
        by_backend = {}
        for o in self.obligations:
            b = by_backend.setdefault(o["backend"], {"n": 0, "secs": 0.0})
            b["n"] += 1
            b["secs"] = round(b["secs"] + o["secs"], 4)
        evals = sum(g["evaluations"] for g in self.bounded_groups.values())
        distinct = sum(len(g["signatures"]) for g in self.bounded_groups.values())
        cov = {
            "explanation": explanation,
            "obligations": n_obl,
            "discharged": discharged,
            "refuted_matching_known_findings": refuted_known,
            "undecided": self.undecided,
            "checker_cmd": checker_cmd or f"./check {self.prop} --tier {self.tier}",
            "trusted_base": self.trusted,
            "functions_under_contract": self.functions,
            "obligations_by_backend": by_backend,
            "solver_seconds": round(sum(o["secs"] for o in self.obligations), 3),
            "vacuity_guards": self.vacuity,
            "translation_validation": self.tv,
            "known_findings_matched": [k[0] for k in self.known_hits],
            "notes": self.notes,
            "obligation_table": [[o["name"], o["status"], o["backend"], o["secs"]] for o in self.obligations],
            "samples": [x for x in self.samples if x["status"] != PROVED][:20] + [x for x in self.samples if x["status"] == PROVED][:12] + [s for g in self.bounded_groups.values() for s in g["samples"][:3]],
        }
        if self.bounded_groups:
            cov["evaluations"] = evals
            cov["distinct_nontrivial"] = distinct
            cov["rule"] = " || ".join(f"{k}: {g['rule']}" for k, g in self.bounded_groups.items())
            cov["bounded_groups"] = {k: {"evaluations": g["evaluations"], "distinct_nontrivial": len(g["signatures"]),
                                         "failed": g["failed"], "label": "bounded (never counted as proved)"}
                                     for k, g in self.bounded_groups.items()}
        if not cov["samples"]:
            cov["samples"] = [o for o in self.obligations[:3]]
        if level == "proof" and (self.undecided or discharged + refuted_known < n_obl):
            # a proof-level file must have discharged == obligations; say what it is instead
            level = "other"
            cov["explanation"] += " [downgraded for this run: not every obligation was discharged]"
        if level == "proof":
            # known-finding obligations are reported separately and not counted as obligations discharged
            cov["obligations"] = discharged
        ev = {
            "property_id": self.prop, "tier": self.tier, "seed": int(self.seed), "level": level,
            "coverage": cov, "assumptions": self.assumptions,
            "wall_s": round(time.time() - self.t0, 2), "violations": len(self.violations),
        }
        with open(os.path.join(EVIDENCE_DIR, f"{self.prop}.json"), "w") as f:
            json.dump(ev, f, indent=1, default=_json_default)
        if self.violations:
            return 1
        if self.engine_errors:
            return 3
        if require_obligations and n_obl == 0 and evals == 0:
            print(f"ENGINE-ERROR {self.prop}: zero obligations and zero evaluations", file=sys.stderr)
            return 3
        return 1 if self.violations else 0


def _json_default(o):
    if isinstance(o, set):
        return sorted(map(str, o))
    return str(o)


def run_check(prop, fn, tier, seed):
    """Driver wrapper: any exception inside a check is an engine failure (exit 3), never a violation."""
    ctx = Ctx(prop, tier, seed)
    try:
        rc = fn(ctx)
    except Exception:
        traceback.print_exc()
        ctx.engine_error("exception in check: " + traceback.format_exc().splitlines()[-1])
        try:
            ctx.finish("other", "check crashed; nothing established", require_obligations=False)
        except Exception:
            pass
        return 3
    return rc
